(** Laws of the SqlValue model: equality is an equivalence, [cmp] is a total preorder that
    agrees with equality outside the listed interval class, equal values hash equally. *)
From Coq Require Import List ZArith Bool Lia.
From VibeSQL Require Import Base.LexOrd Generated.Consts Value.SqlValue.
Import ListNotations.
Open Scope Z_scope.

(** ** Float facts *)
Definition f_okey (w b : Z) : list Z := if f_is_nan w b then [1; 0] else [0; f_key w b].

Lemma f_eqb_okey w a b : f_eqb w a b = true <-> f_okey w a = f_okey w b.
Proof.
  unfold f_eqb, f_ieee_eq, f_pcmp, f_okey.
  destruct (f_is_nan w a), (f_is_nan w b); cbn; try (split; congruence).
  destruct (Z.compare_spec (f_key w a) (f_key w b)) as [H|H|H].
  - rewrite H. split; reflexivity.
  - split; [discriminate | intros E; inversion E; lia].
  - split; [discriminate | intros E; inversion E; lia].
Qed.

Lemma f_cmp_okey w a b :
  match f_pcmp w a b with Some c => c | None => f_nan_order w a b end
  = lex_compare (f_okey w a) (f_okey w b).
Proof.
  unfold f_pcmp, f_nan_order, f_okey.
  destruct (f_is_nan w a), (f_is_nan w b); cbn; try reflexivity.
  destruct (f_key w a ?= f_key w b); reflexivity.
Qed.

Lemma f_pcmp_None w a b : f_pcmp w a b = None -> f_is_nan w a || f_is_nan w b = true.
Proof. unfold f_pcmp. destruct (f_is_nan w a || f_is_nan w b); [reflexivity | discriminate]. Qed.

(** equal keys of two in-range, non-NaN floats: same bits, or both are zeros *)
Lemma f_key_inj w a b :
  (w = 32 \/ w = 64) -> 0 <= a < 2 ^ w -> 0 <= b < 2 ^ w ->
  f_key w a = f_key w b -> a = b \/ (f_mag w a = 0 /\ f_mag w b = 0).
Proof.
  intros Hw Ha Hb. unfold f_key, f_sign, f_mag, f_half.
  assert (Hp : 2 ^ w = 2 * 2 ^ (w - 1)).
  { destruct Hw; subst; reflexivity. }
  assert (Hh : 0 < 2 ^ (w - 1)) by (destruct Hw; subst; reflexivity).
  set (h := 2 ^ (w - 1)) in *.
  pose proof (Z.div_mod a h ltac:(lia)) as Da. pose proof (Z.mod_pos_bound a h Hh) as Ma.
  pose proof (Z.div_mod b h ltac:(lia)) as Db. pose proof (Z.mod_pos_bound b h Hh) as Mb.
  assert (0 <= a / h < 2) by (split; [apply Z.div_pos; lia | apply Z.div_lt_upper_bound; lia]).
  assert (0 <= b / h < 2) by (split; [apply Z.div_pos; lia | apply Z.div_lt_upper_bound; lia]).
  destruct (Z.eqb_spec (a / h) 0), (Z.eqb_spec (b / h) 0); intros E; nia.
Qed.

Lemma f_hash_bits_eq w a b :
  (w = 32 \/ w = 64) -> 0 <= a < 2 ^ w -> 0 <= b < 2 ^ w ->
  f_okey w a = f_okey w b -> f_hash_bits w a = f_hash_bits w b.
Proof.
  intros Hw Ha Hb. unfold f_okey, f_hash_bits.
  destruct (f_is_nan w a), (f_is_nan w b); try congruence.
  intros E. assert (K : f_key w a = f_key w b) by (inversion E; reflexivity).
  destruct (f_key_inj w a b Hw Ha Hb K) as [->|[Za Zb]]; [reflexivity|].
  rewrite Za, Zb. reflexivity.
Qed.

(** ** Keys characterising [eqb] and [cmp] *)
Definition bool_z (b : bool) : Z := if b then 1 else 0.

(** ordering key: [cmp a b = lex_compare (okey a) (okey b)] *)
Definition okey (v : sqlvalue) : list Z :=
  type_tag v ::
  match v with
  | VInteger z | VSmallint z | VBigint z | VUnsigned z => [z]
  | VNumeric b | VDouble b => f_okey 64 b
  | VFloat b | VReal b => f_okey 32 b
  | VCharacter s | VVarchar s => s
  | VBoolean b => [bool_z b]
  | VDate y m d => [y; m; d]
  | VTime h mi s ns => [h; mi; s; ns]
  | VTimestamp y m d h mi s ns => [y; m; d; h; mi; s; ns]
  | VInterval mo da us => [interval_cmp_value mo da us]
  | VNull => []
  end.

(** equality key: [eqb a b = true <-> ekey a = ekey b] *)
Definition ekey (v : sqlvalue) : list Z :=
  type_tag v ::
  match v with
  | VInterval mo da us => [mo; da; us]
  | _ => tl (okey v)
  end.

Lemma lex_cons_same x a b : lex_compare (x :: a) (x :: b) = lex_compare a b.
Proof. cbn. rewrite Z.compare_refl. reflexivity. Qed.

Lemma bool_cmp_z x y : bool_cmp x y = lex_compare [bool_z x] [bool_z y].
Proof. destruct x, y; reflexivity. Qed.

Lemma z_cmp_lex1 x y : (x ?= y) = lex_compare [x] [y].
Proof. cbn. destruct (x ?= y); reflexivity. Qed.

Lemma ts_cmp_lex y m d h mi s ns y' m' d' h' mi' s' ns' :
  ts_cmp y m d h mi s ns y' m' d' h' mi' s' ns' =
  lex_compare [y; m; d; h; mi; s; ns] [y'; m'; d'; h'; mi'; s'; ns'].
Proof.
  unfold ts_cmp, date_cmp, time_cmp. cbn.
  destruct (y ?= y'); try reflexivity.
  destruct (m ?= m'); try reflexivity.
  destruct (d ?= d'); reflexivity.
Qed.

Ltac tag_compute :=
  unfold type_tag_Integer, type_tag_Smallint, type_tag_Bigint, type_tag_Unsigned, type_tag_Numeric,
    type_tag_Float, type_tag_Real, type_tag_Double, type_tag_Character, type_tag_Varchar,
    type_tag_Boolean, type_tag_Date, type_tag_Time, type_tag_Timestamp, type_tag_Interval,
    type_tag_Null.

(** The central characterisation.  It is here that the regenerated type tags matter: were two
    tags equal, [cmp] of two different variants would be [Eq] and this lemma would fail. *)
Lemma cmp_okey a b : cmp a b = lex_compare (okey a) (okey b).
Proof.
  destruct a, b;
    try (cbn -[lex_compare f_pcmp f_nan_order f_okey Z.compare]; tag_compute; reflexivity);
    unfold cmp, okey; cbn [pcmp type_tag]; rewrite lex_cons_same;
    first [ apply z_cmp_lex1 | apply f_cmp_okey | apply bool_cmp_z | apply ts_cmp_lex | reflexivity ].
Qed.

Lemma andb3_eq a b c a' b' c' :
  (a =? a') && (b =? b') && (c =? c') = true <-> [a; b; c] = [a'; b'; c'].
Proof.
  rewrite !andb_true_iff, !Z.eqb_eq.
  split; [intros [[-> ->] ->]; reflexivity | intros E; inversion E; auto].
Qed.

Lemma andb4_eq a b c d a' b' c' d' :
  (a =? a') && (b =? b') && (c =? c') && (d =? d') = true <-> [a; b; c; d] = [a'; b'; c'; d'].
Proof.
  rewrite !andb_true_iff, !Z.eqb_eq.
  split; [intros [[[-> ->] ->] ->]; reflexivity | intros E; inversion E; auto].
Qed.

Lemma cons_inj_iff (x : Z) (l l' : list Z) : x :: l = x :: l' <-> l = l'.
Proof. split; [intros E; inversion E; reflexivity | intros ->; reflexivity]. Qed.

Lemma lex_eq_bool x y : (match lex_compare x y with Eq => true | _ => false end) = true <-> x = y.
Proof.
  rewrite <- lex_compare_eq_iff. destruct (lex_compare x y); split; congruence.
Qed.

Lemma tag_neq_ekey (t t' : Z) l l' : t <> t' -> (false = true <-> t :: l = t' :: l').
Proof. intros N. split; [discriminate | intros E; inversion E; contradiction]. Qed.

Lemma eqb_ekey a b : eqb a b = true <-> ekey a = ekey b.
Proof.
  destruct a, b;
    try (cbn -[f_okey]; tag_compute; apply tag_neq_ekey; discriminate);
    unfold eqb, ekey, okey; cbn [type_tag tl]; rewrite cons_inj_iff.
  - rewrite Z.eqb_eq. split; [intros ->; reflexivity | intros E; inversion E; reflexivity].
  - rewrite Z.eqb_eq. split; [intros ->; reflexivity | intros E; inversion E; reflexivity].
  - rewrite Z.eqb_eq. split; [intros ->; reflexivity | intros E; inversion E; reflexivity].
  - rewrite Z.eqb_eq. split; [intros ->; reflexivity | intros E; inversion E; reflexivity].
  - apply f_eqb_okey.
  - apply f_eqb_okey.
  - apply f_eqb_okey.
  - apply f_eqb_okey.
  - apply lex_eq_bool.
  - apply lex_eq_bool.
  - destruct b, b0; cbn; split; congruence.
  - apply andb3_eq.
  - apply andb4_eq.
  - rewrite andb_true_iff, andb3_eq, andb4_eq.
    split; [intros [E1 E2]; inversion E1; inversion E2; reflexivity
           | intros E; inversion E; split; reflexivity].
  - apply andb3_eq.
  - split; reflexivity.
Qed.

(** ** Equality is an equivalence *)
Theorem eqb_refl_thm a : eqb a a = true.
Proof. apply eqb_ekey. reflexivity. Qed.

Theorem eqb_sym_thm a b : eqb a b = eqb b a.
Proof.
  destruct (eqb a b) eqn:E1, (eqb b a) eqn:E2; try reflexivity.
  - apply eqb_ekey in E1. symmetry in E1. apply eqb_ekey in E1. congruence.
  - apply eqb_ekey in E2. symmetry in E2. apply eqb_ekey in E2. congruence.
Qed.

Theorem eqb_trans_thm a b c : eqb a b = true -> eqb b c = true -> eqb a c = true.
Proof. rewrite !eqb_ekey. congruence. Qed.

(** ** [cmp] is a total preorder *)
Theorem cmp_antisym_thm a b : cmp a b = CompOpp (cmp b a).
Proof. rewrite !cmp_okey. apply lex_compare_antisym. Qed.

Theorem cmp_trans_thm c a b d : cmp a b = c -> cmp b d = c -> cmp a d = c.
Proof. rewrite !cmp_okey. apply lex_compare_trans. Qed.

Theorem cmp_le_trans_thm a b d : cmp a b <> Gt -> cmp b d <> Gt -> cmp a d <> Gt.
Proof. rewrite !cmp_okey. apply lex_compare_le_trans. Qed.

Theorem cmp_total_thm a b : cmp a b <> Gt \/ cmp b a <> Gt.
Proof.
  rewrite (cmp_antisym_thm b a). destruct (cmp a b); cbn; [left|left|right]; discriminate.
Qed.

(** ** [cmp] agrees with equality outside the interval class *)
Definition is_interval (v : sqlvalue) : bool := match v with VInterval _ _ _ => true | _ => false end.

Lemma ekey_okey_non_interval a : is_interval a = false -> ekey a = okey a.
Proof. destruct a; cbn; intros H; try reflexivity; discriminate. Qed.

Lemma tag_interval_only a mo da us : type_tag a = type_tag (VInterval mo da us) -> is_interval a = true.
Proof. destruct a; cbn; tag_compute; intros H; try reflexivity; discriminate. Qed.

Lemma okey_ekey_non_interval a b :
  interval_linear_tie a b = false -> (okey a = okey b <-> ekey a = ekey b).
Proof.
  intros T.
  destruct (is_interval a) eqn:Ia, (is_interval b) eqn:Ib.
  - destruct a; try discriminate. destruct b; try discriminate.
    cbn -[interval_cmp_value] in T. unfold okey, ekey. cbn [type_tag]. rewrite !cons_inj_iff.
    destruct (Z.eqb_spec (interval_cmp_value months days micros) (interval_cmp_value months0 days0 micros0)) as [E|N].
    + cbn in T. apply negb_false_iff in T. apply andb3_eq in T.
      split; intros _; [exact T | rewrite E; reflexivity].
    + split; [intros E; inversion E; contradiction | intros E; inversion E; subst; contradiction].
  - destruct a; try discriminate. rewrite (ekey_okey_non_interval b Ib).
    split; intros E; exfalso;
      assert (Tg : type_tag b = type_tag (VInterval months days micros))
        by (destruct b; cbn in E; inversion E; reflexivity);
      apply tag_interval_only in Tg; congruence.
  - destruct b; try discriminate. rewrite (ekey_okey_non_interval a Ia).
    split; intros E; exfalso;
      assert (Tg : type_tag a = type_tag (VInterval months days micros))
        by (destruct a; cbn in E; inversion E; reflexivity);
      apply tag_interval_only in Tg; congruence.
  - rewrite (ekey_okey_non_interval a Ia), (ekey_okey_non_interval b Ib). split; auto.
Qed.

Theorem cmp_eq_iff_eqb_thm a b :
  interval_linear_tie a b = false -> (cmp a b = Eq <-> eqb a b = true).
Proof.
  intros T. rewrite cmp_okey, lex_compare_eq_iff, eqb_ekey. apply okey_ekey_non_interval. exact T.
Qed.

(** the listed finding, with its witness: INTERVAL '1 MONTH' vs '30 DAY' *)
Theorem cmp_eq_iff_eqb_refuted :
  exists a b, interval_linear_tie a b = true /\ cmp a b = Eq /\ eqb a b = false.
Proof. exists (VInterval 1 0 0), (VInterval 0 30 0). vm_compute. auto. Qed.

(** ** Equal values hash equally *)
Lemma wf_f64 b : in_range 0 (2 ^ 64) b = true -> 0 <= b < 2 ^ 64.
Proof. unfold in_range. rewrite andb_true_iff, Z.leb_le, Z.ltb_lt. auto. Qed.
Lemma wf_f32 b : in_range 0 (2 ^ 32) b = true -> 0 <= b < 2 ^ 32.
Proof. unfold in_range. rewrite andb_true_iff, Z.leb_le, Z.ltb_lt. auto. Qed.

Theorem eq_hash_thm a b :
  wf a = true -> wf b = true -> eqb a b = true -> hash_key a = hash_key b.
Proof.
  intros Wa Wb E. apply eqb_ekey in E. unfold hash_key.
  destruct a, b; unfold ekey, okey in E; cbn [type_tag tl] in E;
    try (revert E; tag_compute; discriminate);
    apply cons_inj_iff in E; cbn [discr hash_payload]; f_equal;
    try (inversion E; subst; reflexivity);
    try (f_equal; apply f_hash_bits_eq; auto using wf_f64, wf_f32);
    try (subst; reflexivity).
  destruct b, b0; cbn in E; try reflexivity; discriminate.
Qed.

(** ** Non-vacuity: hypotheses are met by non-trivial values, and the float cases bite *)
Example wf_examples :
  wf (VDouble 9223372036854775808) = true            (* -0.0 *)
  /\ eqb (VDouble 9223372036854775808) (VDouble 0) = true
  /\ hash_key (VDouble 9223372036854775808) = hash_key (VDouble 0)
  /\ eqb (VDouble 9221120237041090561) (VDouble 18444492273895866368) = true   (* two NaNs *)
  /\ cmp (VDouble 9218868437227405312) (VDouble 9221120237041090561) = Lt       (* +inf < NaN *)
  /\ cmp VNull (VInteger (-5)) = Lt
  /\ cmp (VInteger 5) (VSmallint 1) = Lt                                        (* by type tag *)
  /\ interval_linear_tie (VInterval 12 0 0) (VInterval 12 0 0) = false.
Proof. vm_compute. repeat split; reflexivity. Qed.
