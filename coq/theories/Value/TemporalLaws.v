(** Laws of the temporal text model (Value/Temporal.v, the parsers as repaired by the C22 fixes):
    - round trips [parse (show v) = Ok v] for EVERY valid DATE (negative years included), TIME
      (every nanosecond value) and TIMESTAMP, the INTERVAL round trip, injectivity of the printers;
    - totality: none of the four parsers panics, on any string; [Interval::new] always returns a
      triple whose fields fit i32 / i32 / i64. *)
From Coq Require Import Strings.String.
From Coq Require Import List ZArith Bool Lia.
From VibeSQL Require Import Value.SqlValue Value.Dec Value.DecLaws Value.RStr Value.RStrLaws Value.Temporal.
Import ListNotations.
Open Scope Z_scope.

(** * Character classes of the printed forms *)
Definition q_date (c : Z) : bool := is_digit c || (c =? 45).
Definition q_time (c : Z) : bool := is_digit c || (c =? 58) || (c =? 46).

Lemma digits_q (q : Z -> bool) s : (forall c, is_digit c = true -> q c = true) ->
  forallb is_digit s = true -> forallb q s = true.
Proof. intros H. rewrite !forallb_forall. intros Hs c Hc. apply H, Hs, Hc. Qed.

Lemma digits_none d s : ~ (48 <= d <= 57) -> forallb is_digit s = true -> none (Z.eqb d) s = true.
Proof.
  intros Hd. apply none_of_forallb. intros c Hc. apply is_digit_range in Hc. apply Z.eqb_neq. lia.
Qed.

Lemma eqb46 d : (46 =? d) = true -> d = 46. Proof. intros H. apply Z.eqb_eq in H. lia. Qed.

(** * DATE *)
Lemma date_new_ok y m d : 1 <= m <= 12 -> 1 <= d <= 31 -> date_new y m d = ROk (VDate y m d).
Proof.
  intros Hm Hd. unfold date_new.
  replace ((1 <=? m) && (m <=? 12)) with true by (symmetry; apply andb_true_iff; rewrite !Z.leb_le; lia).
  replace ((1 <=? d) && (d <=? 31)) with true by (symmetry; apply andb_true_iff; rewrite !Z.leb_le; lia).
  reflexivity.
Qed.

(** month-day tail of a date text *)
Lemma md_split (ytext : str) m d : forallb is_digit ytext = true -> 0 <= m -> 0 <= d ->
  split_on 45 (ytext ++ 45 :: show_int_w 2 m ++ 45 :: show_int_w 2 d) = [ytext; show_int_w 2 m; show_int_w 2 d].
Proof.
  intros Hy Hm Hd. unfold split_on.
  rewrite split_by_app; [| apply digits_none; [lia | exact Hy] | reflexivity].
  rewrite split_by_app; [| apply digits_none; [lia | apply show_int_w_digits; lia] | reflexivity].
  rewrite split_by_none; [reflexivity | apply digits_none; [lia | apply show_int_w_digits; lia]].
Qed.

Lemma show_date_shape y m d :
  show_date y m d = show_int_w 4 y ++ 45 :: show_int_w 2 m ++ 45 :: show_int_w 2 d.
Proof. unfold show_date. cbn [app]. reflexivity. Qed.

(** every DATE that [Date::new] accepts — any i32 year, negative ones included — reads back *)
Theorem date_roundtrip_thm y m d :
  valid_date y m d -> parse_date (show_date y m d) = ROk (VDate y m d).
Proof.
  intros (Hy & Hm & Hd). rewrite show_date_shape. unfold parse_date.
  destruct (Z.ltb_spec y 0) as [Hneg|Hpos].
  - (* "-NNN-MM-DD": the leading '-' is stripped and given back to the year *)
    assert (E : show_int_w 4 y = 45 :: pad_left 3 (show_nat (- y))).
    { unfold show_int_w. destruct (Z.ltb_spec y 0); [reflexivity | lia]. }
    rewrite E. cbn [app Z.eqb Pos.eqb fst snd].
    rewrite md_split by (try lia; apply pad_left_digits, show_nat_digits; lia).
    rewrite <- E. replace y with (- (- y)) at 1 by lia.
    unfold parse_i32. rewrite parse_show_neg by lia. rewrite Z.opp_involutive.
    unfold parse_u8. rewrite !parse_show_int by lia. apply date_new_ok; assumption.
  - destruct (show_int_w 4 y) as [|c0 r0] eqn:EY; [exfalso; revert EY; apply show_int_w_nonempty, Hpos|].
    assert (C0 : 48 <= c0 <= 57).
    { pose proof (show_int_w_digits 4 y Hpos) as DG. rewrite EY in DG. cbn [forallb] in DG.
      apply andb_true_iff in DG as [DG _]. apply is_digit_range, DG. }
    cbn [app]. replace (c0 =? 45) with false by (symmetry; apply Z.eqb_neq; lia). cbn [fst snd].
    change (c0 :: r0 ++ 45 :: show_int_w 2 m ++ 45 :: show_int_w 2 d)
      with ((c0 :: r0) ++ 45 :: show_int_w 2 m ++ 45 :: show_int_w 2 d).
    rewrite <- EY. rewrite md_split by (try lia; apply show_int_w_digits, Hpos).
    unfold parse_i32, parse_u8. rewrite !parse_show_int by lia. apply date_new_ok; assumption.
Qed.

Example date_roundtrip_ex :
  valid_date 2024 2 29 /\ show_date 2024 2 29 = lit "2024-02-29"
  /\ parse_date (lit "2024-02-29") = ROk (VDate 2024 2 29)
  /\ valid_date (-1) 1 1 /\ show_date (-1) 1 1 = lit "-001-01-01"
  /\ parse_date (lit "-001-01-01") = ROk (VDate (-1) 1 1)
  /\ parse_date (show_date (-2147483648) 12 31) = ROk (VDate (-2147483648) 12 31).
Proof. unfold valid_date. repeat split; try reflexivity; lia. Qed.

(** * TIME *)
Definition hms_text (h mi s : Z) : str := show_int_w 2 h ++ 58 :: show_int_w 2 mi ++ 58 :: show_int_w 2 s.

Lemma show_time_eq h mi s ns :
  show_time h mi s ns = hms_text h mi s ++ (if ns =? 0 then [] else 46 :: trim_end_zeros (show_int_w 9 ns)).
Proof. unfold show_time, hms_text. cbn [app]. rewrite <- !app_assoc. cbn [app]. rewrite <- !app_assoc. reflexivity. Qed.

Lemma hms_split h mi s : 0 <= h -> 0 <= mi -> 0 <= s ->
  split_on 58 (hms_text h mi s) = [show_int_w 2 h; show_int_w 2 mi; show_int_w 2 s].
Proof.
  intros Hh Hm Hs. unfold split_on, hms_text.
  rewrite split_by_app; [| apply digits_none; [lia | apply show_int_w_digits; lia] | reflexivity].
  rewrite split_by_app; [| apply digits_none; [lia | apply show_int_w_digits; lia] | reflexivity].
  rewrite split_by_none; [reflexivity | apply digits_none; [lia | apply show_int_w_digits; lia]].
Qed.

Lemma hms_q h mi s : 0 <= h -> 0 <= mi -> 0 <= s -> forallb q_time (hms_text h mi s) = true.
Proof.
  intros Hh Hm Hs. unfold hms_text.
  assert (D : forall z, 0 <= z -> forallb q_time (show_int_w 2 z) = true).
  { intros z Hz. apply (digits_q q_time); [|apply show_int_w_digits, Hz].
    intros c Hc. unfold q_time. rewrite Hc. reflexivity. }
  rewrite forallb_app. cbn [forallb]. rewrite forallb_app. cbn [forallb]. rewrite !D by assumption. reflexivity.
Qed.

Lemma q_time_cases c : q_time c = true -> (48 <= c <= 57) \/ c = 58 \/ c = 46.
Proof. unfold q_time. rewrite !orb_true_iff, is_digit_range, !Z.eqb_eq. tauto. Qed.

Lemma hms_nonempty h mi s : 0 <= h -> hms_text h mi s <> [].
Proof.
  intros Hh E. unfold hms_text in E. apply app_eq_nil in E as [E _].
  revert E. apply show_int_w_nonempty, Hh.
Qed.

(** nine digits of nanoseconds *)
Lemma show9_length ns : 0 <= ns <= 999999999 -> length (show_int_w 9 ns) = 9%nat.
Proof.
  intros H. rewrite show_int_w_nonneg by lia. apply pad_left_length_exact.
  apply show_nat_length; [|lia]. change (10 ^ Z.of_nat 9) with 1000000000. lia.
Qed.

(** the fraction printed by [Display] (trailing zeros trimmed) reads back as the nanoseconds:
    taking 9 characters of the trimmed text followed by '0's restores the 9-digit text *)
Lemma frac_roundtrip ns : 0 <= ns <= 999999999 ->
  parse_frac9 (trim_end_zeros (show_int_w 9 ns)) = ROk ns.
Proof.
  intros H. unfold parse_frac9, trim_end_zeros.
  rewrite take_pad_pad_right.
  - rewrite pad_right_trim by (apply show9_length, H).
    unfold parse_u32. rewrite parse_show_int by lia. reflexivity.
  - destruct (trim_end_by_split (Z.eqb 48) (show_int_w 9 ns)) as (z & E & _).
    pose proof (f_equal (@length Z) E) as L. rewrite app_length, show9_length in L by assumption. lia.
Qed.

Lemma trimmed_frac_digits ns : 0 <= ns -> forallb is_digit (trim_end_zeros (show_int_w 9 ns)) = true.
Proof.
  intros H. unfold trim_end_zeros.
  destruct (trim_end_by_split (Z.eqb 48) (show_int_w 9 ns)) as (z & E & _).
  pose proof (show_int_w_digits 9 ns H) as D. rewrite E, forallb_app in D.
  apply andb_true_iff in D as [D _]. exact D.
Qed.

Lemma time_new_ok h mi s ns : valid_time h mi s ns -> time_new h mi s ns = ROk (VTime h mi s ns).
Proof.
  intros (Hh & Hm & Hs & Hn). unfold time_new.
  replace (23 <? h) with false by (symmetry; apply Z.ltb_ge; lia).
  replace (59 <? mi) with false by (symmetry; apply Z.ltb_ge; lia).
  replace (59 <? s) with false by (symmetry; apply Z.ltb_ge; lia).
  replace (999999999 <? ns) with false by (symmetry; apply Z.ltb_ge; lia).
  reflexivity.
Qed.

Lemma parse_hms_fields h mi s : 0 <= h <= 255 -> 0 <= mi <= 255 -> 0 <= s <= 255 ->
  parse_u8 (show_int_w 2 h) = Some h /\ parse_u8 (show_int_w 2 mi) = Some mi /\ parse_u8 (show_int_w 2 s) = Some s.
Proof. intros Hh Hm Hs. unfold parse_u8. rewrite !parse_show_int by lia. repeat split. Qed.

(** every valid TIME (all 10^9 nanosecond values) reads back from its text *)
Theorem time_roundtrip_thm h mi s ns :
  valid_time h mi s ns -> parse_time (show_time h mi s ns) = ROk (VTime h mi s ns).
Proof.
  intros V. pose proof V as (Hh & Hm & Hs & Hn).
  rewrite show_time_eq. unfold parse_time.
  destruct (parse_hms_fields h mi s ltac:(lia) ltac:(lia) ltac:(lia)) as (Ph & Pm & Ps).
  assert (N46 : none (Z.eqb 46) (hms_text h mi s) = true).
  { unfold hms_text. rewrite none_app, none_cons, none_app, none_cons.
    rewrite !digits_none by (try lia; apply show_int_w_digits; lia). reflexivity. }
  destruct (Z.eqb_spec ns 0) as [->|Hnz].
  - rewrite app_nil_r, find_b_none by exact N46. cbn [rbind fst snd].
    rewrite hms_split by lia. rewrite Ph, Pm, Ps. cbn [rbind]. apply time_new_ok, V.
  - rewrite find_b_app by (assumption || reflexivity).
    destruct (slices_at (hms_text h mi s) 46 (trim_end_zeros (show_int_w 9 ns)) eq_refl) as (S1 & _ & S3).
    rewrite S1, S3. cbn [rbind fst snd].
    rewrite hms_split by lia. rewrite Ph, Pm, Ps.
    rewrite frac_roundtrip by lia. cbn [rbind]. apply time_new_ok, V.
Qed.

Example time_roundtrip_ex :
  valid_time 23 59 59 120000000 /\ show_time 23 59 59 120000000 = lit "23:59:59.12"
  /\ parse_time (lit "23:59:59.12") = ROk (VTime 23 59 59 120000000).
Proof. unfold valid_time. repeat split; try reflexivity; lia. Qed.

(** * TIMESTAMP *)
Lemma show_time_q h mi s ns : 0 <= h -> 0 <= mi -> 0 <= s -> 0 <= ns ->
  forallb q_time (show_time h mi s ns) = true.
Proof.
  intros Hh Hm Hs Hn. rewrite show_time_eq, forallb_app, hms_q by assumption.
  destruct (ns =? 0); [reflexivity|]. cbn [forallb andb q_time Z.eqb orb].
  apply (digits_q q_time); [|apply trimmed_frac_digits, Hn].
  intros c Hc. unfold q_time. rewrite Hc. reflexivity.
Qed.

Lemma show_time_nonempty h mi s ns : 0 <= h -> show_time h mi s ns <> [].
Proof.
  intros Hh E. rewrite show_time_eq in E. apply app_eq_nil in E as [E _].
  revert E. apply hms_nonempty, Hh.
Qed.

(** any integer, negative ones included, prints with digits and possibly a leading '-' *)
Lemma show_int_w_q w z : forallb q_date (show_int_w w z) = true.
Proof.
  assert (D : forall s, forallb is_digit s = true -> forallb q_date s = true).
  { intros s0. apply (digits_q q_date). intros c Hc. unfold q_date. rewrite Hc. reflexivity. }
  unfold show_int_w. destruct (Z.ltb_spec z 0).
  - cbn [forallb]. rewrite D by (apply pad_left_digits, show_nat_digits; lia). reflexivity.
  - apply D, pad_left_digits, show_nat_digits; lia.
Qed.

Lemma show_int_w_nonempty_any w z : show_int_w w z <> [].
Proof.
  unfold show_int_w. destruct (z <? 0); [discriminate | apply pad_left_nonempty, show_nat_nonempty].
Qed.

Lemma show_date_q y m d : forallb q_date (show_date y m d) = true.
Proof. unfold show_date. rewrite !forallb_app, !show_int_w_q. reflexivity. Qed.

Lemma q_date_cases c : q_date c = true -> (48 <= c <= 57) \/ c = 45.
Proof. unfold q_date. rewrite orb_true_iff, is_digit_range, Z.eqb_eq. tauto. Qed.

Lemma is_ws_cases c : is_ws c = true ->
  (9 <= c <= 13) \/ c = 32 \/ c = 133 \/ c = 160 \/ c = 5760 \/ (8192 <= c <= 8202) \/ c = 8232
  \/ c = 8233 \/ c = 8239 \/ c = 8287 \/ c = 12288.
Proof.
  unfold is_ws. rewrite !orb_true_iff, !andb_true_iff, !Z.leb_le, !Z.eqb_eq. tauto.
Qed.

Lemma trim_id s c r r' c' : s = c :: r -> is_ws c = false -> s = r' ++ [c'] -> is_ws c' = false -> trim s = s.
Proof.
  intros E1 H1 E2 H2. unfold trim. rewrite E1, drop_while_id by assumption. rewrite <- E1, E2.
  apply trim_end_by_id, H2.
Qed.

Lemma slice_from_1 c r : width c = 1 -> slice_from 1 (c :: r) = ROk r.
Proof.
  intros W. unfold slice_from. cbn [bslice_from]. rewrite W. cbn [Z.eqb Z.ltb Z.compare Z.sub Z.add Z.opp Z.pos_sub].
  destruct r; reflexivity.
Qed.

Lemma sign_width c : is_sign c = true -> width c = 1.
Proof. unfold is_sign. rewrite orb_true_iff, !Z.eqb_eq. intros [->| ->]; reflexivity. Qed.

(** a candidate offset whose tail is 6 bytes or longer is not a timezone offset *)
Lemma is_tz_offset_long c rest : is_sign c = true -> 6 <= blen rest -> is_tz_offset (c :: rest) = ROk false.
Proof.
  intros Hc Hl. unfold is_tz_offset. pose proof (sign_width c Hc) as W.
  cbn [blen]. rewrite W.
  replace (1 + blen rest <? 3) with false by (symmetry; apply Z.ltb_ge; lia).
  rewrite Hc. cbn [negb]. rewrite slice_from_1 by exact W. cbn [rbind].
  pose proof (utf8_length rest) as L.
  replace (length (utf8 rest) =? 5)%nat with false by (symmetry; apply Nat.eqb_neq; lia).
  replace (length (utf8 rest) =? 4)%nat with false by (symmetry; apply Nat.eqb_neq; lia).
  replace (length (utf8 rest) =? 2)%nat with false by (symmetry; apply Nat.eqb_neq; lia).
  reflexivity.
Qed.

Lemma last_char (s : str) : s <> [] -> exists r c, s = r ++ [c].
Proof. intros H. destruct (exists_last H) as (r & c & E). exists r, c. exact E. Qed.

(** the printed timestamp survives [trim] and [strip_timezone_suffix] untouched, for every year *)
Lemma strip_tz_printed y m d h mi s ns :
  0 <= m -> 0 <= d -> 0 <= h -> 0 <= mi -> 0 <= s -> 0 <= ns ->
  let text := show_timestamp y m d h mi s ns in
  trim text = text /\ strip_tz text = ROk text.
Proof.
  intros Hm Hd Hh Hmi Hs Hn text.
  set (D := show_date y m d). set (T := show_time h mi s ns).
  assert (QD : forallb q_date D = true) by apply show_date_q.
  assert (QT : forallb q_time T = true) by (apply show_time_q; assumption).
  assert (TN : T <> []) by (apply show_time_nonempty; assumption).
  assert (E : text = D ++ 32 :: T) by reflexivity.
  (* first and last characters *)
  destruct (show_int_w 4 y) as [|c0 r0] eqn:EY; [exfalso; revert EY; apply show_int_w_nonempty_any|].
  assert (C0 : q_date c0 = true).
  { pose proof (show_int_w_q 4 y) as DG. rewrite EY in DG. cbn [forallb] in DG.
    apply andb_true_iff in DG as [DG _]. exact DG. }
  destruct (last_char T TN) as (rT & cT & ET).
  assert (CT : q_time cT = true).
  { rewrite forallb_forall in QT. apply QT. rewrite ET. apply in_or_app. right. left. reflexivity. }
  assert (WS0 : is_ws c0 = false).
  { apply q_date_cases in C0. destruct (is_ws c0) eqn:W; [|reflexivity]. apply is_ws_cases in W. lia. }
  assert (WST : is_ws cT = false).
  { apply q_time_cases in CT. destruct (is_ws cT) eqn:W; [|reflexivity]. apply is_ws_cases in W. lia. }
  assert (Etext1 : text = c0 :: (r0 ++ [45] ++ show_int_w 2 m ++ [45] ++ show_int_w 2 d) ++ 32 :: T).
  { rewrite E. unfold D, show_date. rewrite EY. cbn [app]. rewrite <- !app_assoc. reflexivity. }
  assert (Etext2 : text = (D ++ 32 :: rT) ++ [cT]).
  { rewrite E, ET, <- app_assoc. reflexivity. }
  split; [eapply trim_id; eassumption|].
  (* strip_tz *)
  unfold strip_tz.
  rewrite Etext2 at 1 2. rewrite !ends_with_app.
  replace (cT =? 90) with false by (symmetry; apply Z.eqb_neq; apply q_time_cases in CT; lia).
  replace (cT =? 122) with false by (symmetry; apply Z.eqb_neq; apply q_time_cases in CT; lia).
  cbn [orb].
  (* the last sign is the second '-' separator of the date *)
  set (a := show_int_w 4 y ++ 45 :: show_int_w 2 m).
  set (b := show_int_w 2 d ++ 32 :: T).
  assert (Eab : text = a ++ 45 :: b).
  { rewrite E. unfold D, show_date, a, b. repeat (progress (rewrite <- ?app_assoc; cbn [app])). reflexivity. }
  assert (Nb : none is_sign b = true).
  { unfold b. rewrite none_app, none_cons.
    rewrite (none_of_forallb is_digit is_sign) by
      (try (apply show_int_w_digits; assumption); intros c Hc; apply is_digit_range in Hc;
       unfold is_sign; apply orb_false_iff; rewrite !Z.eqb_neq; lia).
    rewrite (none_of_forallb q_time is_sign _ ltac:(intros c Hc; apply q_time_cases in Hc;
       unfold is_sign; apply orb_false_iff; rewrite !Z.eqb_neq; lia) QT).
    reflexivity. }
  rewrite Eab.
  rewrite rfind_b_app by (assumption || reflexivity).
  destruct (10 <? blen a); [|reflexivity].
  destruct (slices_at a 45 b eq_refl) as (_ & S2 & _). rewrite S2. cbn [rbind].
  rewrite is_tz_offset_long; [reflexivity | reflexivity |].
  unfold b. rewrite blen_app. cbn [blen].
  pose proof (blen_length_le (show_int_w 2 d)). pose proof (show_int_w_length 2 d Hd).
  pose proof (blen_length_le T).
  assert (3 <= length T)%nat.
  { unfold T. rewrite show_time_eq, app_length. unfold hms_text. rewrite app_length. cbn [length].
    pose proof (show_int_w_length 2 h Hh). lia. }
  change (width 32) with 1. lia.
Qed.

(** every valid TIMESTAMP reads back from its text (any i32 year) *)
Theorem timestamp_roundtrip_thm y m d h mi s ns :
  valid_date y m d -> valid_time h mi s ns ->
  parse_timestamp (show_timestamp y m d h mi s ns) = ROk (VTimestamp y m d h mi s ns).
Proof.
  intros VD VT. pose proof VD as (Hy & Hm & Hd). pose proof VT as (Hh & Hmi & Hs & Hn).
  destruct (strip_tz_printed y m d h mi s ns) as (TR & ST); try lia.
  unfold parse_timestamp. rewrite TR, ST. cbn [rbind].
  set (D := show_date y m d). set (T := show_time h mi s ns).
  assert (QD : forallb q_date D = true) by apply show_date_q.
  assert (QT : forallb q_time T = true) by (apply show_time_q; lia).
  assert (E : show_timestamp y m d h mi s ns = D ++ 32 :: T) by reflexivity.
  rewrite E.
  assert (NDT : forall p, (forall c, q_date c = true -> p c = false) -> (forall c, q_time c = true -> p c = false) ->
                          p 32 = false -> none p (D ++ 32 :: T) = true).
  { intros p H1 H2 H3. rewrite none_app, none_cons, H3.
    rewrite (none_of_forallb q_date p D H1 QD), (none_of_forallb q_time p T H2 QT). reflexivity. }
  rewrite find_b_none.
  2:{ apply NDT; [intros c Hc; apply q_date_cases in Hc | intros c Hc; apply q_time_cases in Hc | reflexivity];
      apply Z.eqb_neq; lia. }
  unfold split_ws.
  rewrite split_by_app; [| | reflexivity].
  2:{ apply (none_of_forallb q_date is_ws D); [|exact QD]. intros c Hc. apply q_date_cases in Hc.
      destruct (is_ws c) eqn:W; [|reflexivity]. apply is_ws_cases in W. lia. }
  rewrite split_by_none.
  2:{ apply (none_of_forallb q_time is_ws T); [|exact QT]. intros c Hc. apply q_time_cases in Hc.
      destruct (is_ws c) eqn:W; [|reflexivity]. apply is_ws_cases in W. lia. }
  cbn [filter].
  assert (DN : is_nil D = false).
  { unfold D, show_date. destruct (show_int_w 4 y) eqn:EY; [exfalso; revert EY; apply show_int_w_nonempty_any | reflexivity]. }
  assert (TN : is_nil T = false).
  { destruct T eqn:ET; [exfalso; revert ET; apply show_time_nonempty; lia | reflexivity]. }
  rewrite DN, TN. cbn [negb].
  unfold D, T. rewrite date_roundtrip_thm by assumption.
  rewrite time_roundtrip_thm by assumption. reflexivity.
Qed.

Example timestamp_roundtrip_ex :
  show_timestamp 2024 1 5 1 2 3 500000000 = lit "2024-01-05 01:02:03.5"
  /\ parse_timestamp (lit "2024-01-05 01:02:03.5") = ROk (VTimestamp 2024 1 5 1 2 3 500000000)
  /\ show_timestamp (-12345678) 1 1 1 2 3 4 = lit "-12345678-01-01 01:02:03.000000004"
  /\ parse_timestamp (lit "-12345678-01-01 01:02:03.000000004") = ROk (VTimestamp (-12345678) 1 1 1 2 3 4).
Proof. repeat split; reflexivity. Qed.

(** the same through [SqlValue]'s Display (display.rs delegates to the inner Display), with
    "equal" in the sense of C21's [eqb] *)
Theorem value_roundtrip_thm v t :
  valid_temporal v -> show_temporal v = Some t ->
  parse_as v t = ROk v /\ (forall w, parse_as v t = ROk w -> eqb v w = true).
Proof.
  intros V S.
  assert (P : parse_as v t = ROk v).
  { destruct v; try contradiction; cbn [show_temporal] in S; inversion S; subst; cbn [parse_as valid_temporal] in *.
    - apply date_roundtrip_thm; assumption.
    - apply time_roundtrip_thm; assumption.
    - destruct V. apply timestamp_roundtrip_thm; assumption. }
  split; [exact P|]. intros w Hw. rewrite P in Hw. inversion Hw; subst.
  destruct w; try contradiction; cbn [eqb]; rewrite ?Z.eqb_refl; reflexivity.
Qed.

(** printing is injective on valid values of the same type *)
Corollary show_temporal_inj v w t :
  valid_temporal v -> valid_temporal w ->
  show_temporal v = Some t -> show_temporal w = Some t ->
  (match v, w with
   | VDate _ _ _, VDate _ _ _ | VTime _ _ _ _, VTime _ _ _ _
   | VTimestamp _ _ _ _ _ _ _, VTimestamp _ _ _ _ _ _ _ => True | _, _ => False end) ->
  v = w.
Proof.
  intros Vv Vw Sv Sw K.
  destruct (value_roundtrip_thm v t Vv Sv) as (Pv & _).
  destruct (value_roundtrip_thm w t Vw Sw) as (Pw & _).
  destruct v, w; try contradiction; cbn [parse_as] in *; congruence.
Qed.

(** * INTERVAL round trip: Display prints the stored text, so re-parsing the printed text runs
    the same function on the same input and gives an equal ([eqb]) value *)
Theorem interval_roundtrip_thm s i :
  interval_new s = ROk i ->
  show_interval i = s
  /\ interval_new (show_interval i) = ROk i
  /\ (forall j, interval_new (show_interval i) = ROk j -> eqb (interval_value i) (interval_value j) = true).
Proof.
  intros H.
  assert (E : show_interval i = s).
  { unfold interval_new in H. destruct (parse_interval s) as [[[mo d] us]| |]; cbn [rbind] in H; try discriminate.
    inversion H; subst. reflexivity. }
  split; [exact E|]. rewrite E. split; [exact H|].
  intros j Hj. rewrite H in Hj. inversion Hj; subst. unfold interval_value. cbn [eqb].
  rewrite !Z.eqb_refl. reflexivity.
Qed.

Example interval_roundtrip_ex :
  interval_new (lit "1-6 YEAR TO MONTH") = ROk {| iv_text := lit "1-6 YEAR TO MONTH"; iv_months := 18; iv_days := 0; iv_micros := 0 |}.
Proof. reflexivity. Qed.

(** * Totality: no parser panics, on any string *)

Lemma rbind_no_panic {A B} (r : res A) (f : A -> res B) :
  is_panic r = false -> (forall a, r = ROk a -> is_panic (f a) = false) -> is_panic (rbind r f) = false.
Proof. intros Hr Hf. destruct r; cbn [rbind is_panic] in *; [apply Hf; reflexivity | reflexivity | discriminate]. Qed.

Lemma date_new_no_panic y m d : is_panic (date_new y m d) = false.
Proof. unfold date_new. destruct ((1 <=? m) && (m <=? 12)), ((1 <=? d) && (d <=? 31)); reflexivity. Qed.

Lemma time_new_no_panic h mi s ns : is_panic (time_new h mi s ns) = false.
Proof. unfold time_new. destruct (23 <? h), (59 <? mi), (59 <? s), (999999999 <? ns); reflexivity. Qed.

Lemma mk_timestamp_no_panic d t : is_panic (mk_timestamp d t) = false.
Proof. destruct d, t; reflexivity. Qed.

(** [Date::from_str] never panics *)
Theorem parse_date_total_thm s : is_panic (parse_date s) = false.
Proof.
  unfold parse_date.
  destruct (split_on 45 _) as [|a [|b [|c [|? ?]]]]; try reflexivity.
  destruct (parse_i32 _); [|reflexivity]. destruct (parse_u8 b); [|reflexivity].
  destruct (parse_u8 c); [|reflexivity]. apply date_new_no_panic.
Qed.

Example parse_date_total_ex : parse_date [45; 233; 45; 8364; 45] = RErr /\ parse_date [] = RErr /\ parse_date [45] = RErr.
Proof. repeat split; reflexivity. Qed.

Lemma parse_frac9_no_panic f : is_panic (parse_frac9 f) = false.
Proof. unfold parse_frac9. destruct (parse_u32 _); reflexivity. Qed.

(** [Time::from_str] never panics: the only slices are at the position of the first '.' *)
Theorem parse_time_total_thm s : is_panic (parse_time s) = false.
Proof.
  unfold parse_time. destruct (find_b (Z.eqb 46) s) as [k|] eqn:F.
  - destruct (find_b_inv _ _ _ F) as (a & d & b & -> & -> & Hd & Ha). apply eqb46 in Hd. subst d.
    destruct (slices_at a 46 b eq_refl) as (S1 & _ & S3). rewrite S1, S3. cbn [rbind fst snd].
    destruct (split_on 58 a) as [|x [|y [|z [|? ?]]]]; try reflexivity.
    destruct (parse_u8 x); [|reflexivity]. destruct (parse_u8 y); [|reflexivity].
    destruct (parse_u8 z); [|reflexivity].
    apply rbind_no_panic; [apply parse_frac9_no_panic | intros; apply time_new_no_panic].
  - cbn [rbind fst snd].
    destruct (split_on 58 s) as [|x [|y [|z [|? ?]]]]; try reflexivity.
    destruct (parse_u8 x); [|reflexivity]. destruct (parse_u8 y); [|reflexivity].
    destruct (parse_u8 z); [|reflexivity]. cbn [rbind]. apply time_new_no_panic.
Qed.

(** the inputs on which the code panicked before repair e051995f now give [Err] *)
Example parse_time_total_ex :
  parse_time (lit "00:00:00." ++ [233; 233; 233; 233; 233]) = RErr
  /\ parse_time (lit "00:00:00.1234" ++ [8364; 8364; 8364]) = RErr
  /\ parse_time (lit "00:00:00.12345678" ++ [233; 233]) = RErr.
Proof. repeat split; reflexivity. Qed.

(** [is_timezone_offset] always answers (it works on bytes; [s[1..]] follows an ASCII sign) *)
Lemma is_tz_offset_ok c b : is_sign c = true -> exists r, is_tz_offset (c :: b) = ROk r.
Proof.
  intros Hc. unfold is_tz_offset. destruct (blen (c :: b) <? 3); [eexists; reflexivity|].
  rewrite Hc. cbn [negb]. rewrite slice_from_1 by (apply sign_width, Hc). cbn [rbind].
  destruct ((length (utf8 b) =? 5)%nat && (nth 2 (utf8 b) 0 =? 58)); [eexists; reflexivity|].
  destruct (length (utf8 b) =? 4)%nat; [eexists; reflexivity|].
  destruct (length (utf8 b) =? 2)%nat; eexists; reflexivity.
Qed.

(** [strip_timezone_suffix] always returns an infix of its argument *)
Lemma strip_tz_ok t : exists part, strip_tz t = ROk part /\ infix part t.
Proof.
  unfold strip_tz. destruct (ends_with 90 t || ends_with 122 t) eqn:EW.
  - assert (R : exists r c, t = r ++ [c] /\ width c = 1).
    { apply orb_true_iff in EW as [EW|EW]; apply ends_with_inv in EW as (r & ->); eexists _, _; split; reflexivity. }
    destruct R as (r & c & -> & W). rewrite blen_app. cbn [blen]. rewrite W.
    replace (blen r + (1 + 0) - 1) with (blen r) by lia.
    unfold slice_to. rewrite bslice_to_app. exists r. split; [reflexivity | apply infix_prefix].
  - destruct (rfind_b is_sign t) as [k|] eqn:R; [|exists t; split; [reflexivity | apply infix_refl]].
    destruct (rfind_b_inv _ _ _ R) as (a & d & b & -> & -> & Hd & Hb).
    destruct (10 <? blen a); [|eexists; split; [reflexivity | apply infix_refl]].
    destruct (slices_at a d b (sign_width d Hd)) as (S1 & S2 & _). rewrite S2. cbn [rbind].
    destruct (is_tz_offset_ok d b Hd) as ([|] & ->); cbn [rbind].
    + rewrite S1. exists a. split; [reflexivity | apply infix_prefix].
    + eexists; split; [reflexivity | apply infix_refl].
Qed.

(** [Timestamp::from_str] never panics *)
Theorem parse_timestamp_total_thm s : is_panic (parse_timestamp s) = false.
Proof.
  unfold parse_timestamp.
  destruct (strip_tz_ok (trim s)) as (part & -> & _). cbn [rbind].
  destruct (find_b (Z.eqb 84) part) as [k|] eqn:F.
  - destruct (find_b_inv _ _ _ F) as (a & d & b & -> & -> & Hd & Ha).
    apply Z.eqb_eq in Hd. subst d.
    destruct (slices_at a 84 b eq_refl) as (S1 & _ & S3). rewrite S1, S3. cbn [rbind].
    apply rbind_no_panic; [apply parse_date_total_thm | intros dv _].
    apply rbind_no_panic; [apply parse_time_total_thm | intros tv _; apply mk_timestamp_no_panic].
  - destruct (split_ws part) as [|x [|y [|? ?]]] eqn:SW; try reflexivity.
    + pose proof (parse_date_total_thm x) as PD.
      destruct (parse_date x); [apply mk_timestamp_no_panic | reflexivity | discriminate].
    + apply rbind_no_panic; [apply parse_date_total_thm | intros dv _].
      apply rbind_no_panic; [apply parse_time_total_thm | intros tv _; apply mk_timestamp_no_panic].
Qed.

(** the inputs on which the code panicked before repairs e051995f / 947265c2 *)
Example parse_timestamp_total_ex :
  parse_timestamp (lit "2024-01-01 00:00:00." ++ [233; 233; 233; 233; 233] ++ lit "+") = RErr
  /\ parse_timestamp (lit "2024-01-01 00:00:00+1" ++ [233] ++ lit ":2") = RErr
  /\ parse_timestamp ([160] ++ lit "2024-01-05T01:02:03.25+05:30 ") = ROk (VTimestamp 2024 1 5 1 2 3 250000000).
Proof. repeat split; reflexivity. Qed.

(** ** INTERVAL: always a triple, and its fields fit i32 / i32 / i64 *)
Lemma sat32_range r : i32_min <= sat i32_min i32_max r <= i32_max.
Proof. unfold sat, i32_min, i32_max. lia. Qed.
Lemma sat64_range r : i64_min <= sat i64_min i64_max r <= i64_max.
Proof. unfold sat, i64_min, i64_max. lia. Qed.

Lemma or0_i32_range x : i32_min <= or0 (parse_i32 x) <= i32_max.
Proof.
  unfold or0, i32_min, i32_max. destruct (parse_i32 x) eqn:P; [|lia].
  apply parse_int_inv in P as (_ & _ & _ & _ & _ & R). exact R.
Qed.

Lemma seconds_ok x : exists v, parse_seconds_us x = ROk v /\ i64_min <= v <= i64_max.
Proof.
  unfold parse_seconds_us. destruct (find_b (Z.eqb 46) x) as [k|] eqn:F.
  - destruct (find_b_inv _ _ _ F) as (a & d & b & -> & -> & Hd & Ha). apply eqb46 in Hd. subst d.
    destruct (slices_at a 46 b eq_refl) as (S1 & _ & S3). rewrite S1, S3. cbn [rbind].
    eexists. split; [reflexivity | apply sat64_range].
  - eexists. split; [reflexivity | apply sat64_range].
Qed.

Lemma time_us_ok x : exists v, parse_time_us x = ROk v /\ i64_min <= v <= i64_max.
Proof.
  unfold parse_time_us.
  assert (Z0 : i64_min <= 0 <= i64_max) by (unfold i64_min, i64_max; lia).
  destruct (split_on 58 x) as [|p0 [|p1 [|p2 rest]]].
  - eexists; split; [reflexivity | exact Z0].
  - eexists; split; [reflexivity|]. destruct (parse_i64 p0); [apply sat64_range | exact Z0].
  - eexists; split; [reflexivity|].
    destruct (parse_i64 p1); [apply sat64_range|]. destruct (parse_i64 p0); [apply sat64_range | exact Z0].
  - destruct (seconds_ok p2) as (v & -> & _). cbn [rbind]. eexists; split; [reflexivity | apply sat64_range].
Qed.

Lemma zero_triple : triple_in_range (0, 0, 0).
Proof. unfold triple_in_range, i32_min, i32_max, i64_min, i64_max. lia. Qed.

Lemma triple_intro mo d us :
  i32_min <= mo <= i32_max -> i32_min <= d <= i32_max -> i64_min <= us <= i64_max -> triple_in_range (mo, d, us).
Proof. unfold triple_in_range. tauto. Qed.

Lemma z32 : i32_min <= 0 <= i32_max. Proof. unfold i32_min, i32_max; lia. Qed.
Lemma z64 : i64_min <= 0 <= i64_max. Proof. unfold i64_min, i64_max; lia. Qed.

Lemma interval_simple_ok v u : exists t, interval_simple v u = ROk t /\ triple_in_range t.
Proof.
  unfold interval_simple.
  repeat match goal with |- context [if ?c then _ else _] => destruct c end;
    try (eexists; split; [reflexivity|];
         first [ apply zero_triple
               | apply triple_intro; first [apply sat32_range | apply sat64_range | apply or0_i32_range | apply z32 | apply z64] ]).
  destruct (seconds_ok v) as (x & -> & R). cbn [rbind]. eexists; split; [reflexivity|].
  apply triple_intro; [apply z32 | apply z32 | exact R].
Qed.

Lemma interval_compound_ok parts k : exists t, interval_compound parts k = ROk t /\ triple_in_range t.
Proof.
  unfold interval_compound. set (vp := nth 0 parts []).
  repeat match goal with |- context [if ?c then _ else _] => destruct c end.
  - destruct (find_b (Z.eqb 45) vp) as [n|] eqn:F.
    + destruct (find_b_inv _ _ _ F) as (a & d & b & E & -> & Hd & Ha). apply Z.eqb_eq in Hd. subst d.
      rewrite E. destruct (slices_at a 45 b eq_refl) as (S1 & _ & S3). rewrite S1, S3. cbn [rbind].
      eexists; split; [reflexivity|]. apply triple_intro; [apply sat32_range | apply z32 | apply z64].
    + eexists; split; [reflexivity|]. apply triple_intro; [apply sat32_range | apply z32 | apply z64].
  - destruct (find_b (Z.eqb 32) vp) as [n|] eqn:F.
    + destruct (find_b_inv _ _ _ F) as (a & d & b & E & -> & Hd & Ha). apply Z.eqb_eq in Hd. subst d.
      rewrite E. destruct (slices_at a 32 b eq_refl) as (S1 & _ & S3). rewrite S1, S3. cbn [rbind].
      destruct (time_us_ok (trim b)) as (v & -> & R). cbn [rbind].
      eexists; split; [reflexivity|]. apply triple_intro; [apply z32 | apply or0_i32_range | exact R].
    + eexists; split; [reflexivity|]. apply triple_intro; [apply z32 | apply or0_i32_range | apply z64].
  - destruct (time_us_ok vp) as (v & -> & R). cbn [rbind].
    eexists; split; [reflexivity|]. apply triple_intro; [apply z32 | apply z32 | exact R].
  - eexists; split; [reflexivity | apply zero_triple].
Qed.

(** [Interval::parse_interval] returns a triple for EVERY string — no panic (no unchecked index,
    no byte slice inside a character, no overflow) — and the triple fits the field types *)
Theorem parse_interval_ok_thm s : exists t, parse_interval s = ROk t /\ triple_in_range t.
Proof.
  unfold parse_interval. destruct (split_ws s) as [|p0 ps]; [eexists; split; [reflexivity | apply zero_triple]|].
  destruct (position _ (p0 :: ps)) as [k|].
  - destruct (2 <=? k)%nat; [apply interval_compound_ok | eexists; split; [reflexivity | apply zero_triple]].
  - destruct ps as [|u rest]; [eexists; split; [reflexivity | apply zero_triple] | apply interval_simple_ok].
Qed.

(** [Interval::new] / [Interval::from_str]: always [Ok], never a panic, never [Err] *)
Theorem interval_new_total_thm s :
  exists i, interval_new s = ROk i /\ iv_text i = s
            /\ triple_in_range (iv_months i, iv_days i, iv_micros i).
Proof.
  destruct (parse_interval_ok_thm s) as ([[mo d] us] & P & R).
  unfold interval_new. rewrite P. cbn [rbind]. eexists. split; [reflexivity | split; [reflexivity | exact R]].
Qed.

Corollary parse_interval_total_thm s :
  is_panic (parse_interval s) = false /\ is_panic (interval_new s) = false /\ interval_new s <> RErr.
Proof.
  destruct (parse_interval_ok_thm s) as (t & P & _). destruct (interval_new_total_thm s) as (i & I & _).
  rewrite P, I. repeat split; discriminate.
Qed.

(** the inputs on which the code panicked before repair 21946acd: the trailing TO, the fraction
    cut, and the four overflow sites now saturate *)
Example parse_interval_total_ex :
  parse_interval (lit "1 YEAR TO") = ROk (0, 0, 0)
  /\ parse_interval (lit "1.a" ++ [233; 233; 233; 233; 233] ++ lit " SECOND") = ROk (0, 0, 1000000)
  /\ parse_interval (lit "200000000 YEAR") = ROk (2147483647, 0, 0)
  /\ parse_interval (lit "-200000000 YEAR") = ROk (-2147483648, 0, 0)
  /\ parse_interval (lit "178956970-8 YEAR TO MONTH") = ROk (2147483647, 0, 0)
  /\ parse_interval (lit "2562047789 HOUR") = ROk (0, 0, 9223372036854775807)
  /\ parse_interval (lit "9223372036854.775808 SECOND") = ROk (0, 0, 9223372036854775807)
  /\ parse_interval (lit "99999999:99999999:99999999.999999 HOUR TO SECOND") = ROk (0, 0, 366099996339999999).
Proof. repeat split; reflexivity. Qed.

(** saturation only happens beyond the type bounds: where the exact result fits, it is returned *)
Lemma sat_exact lo hi r : lo <= r <= hi -> sat lo hi r = r.
Proof. unfold sat. lia. Qed.

(** the DAY arm's [value_part.find(' ')] never finds anything: a whitespace-split word has no ' ' *)
Lemma split_ws_no_space s n : find_b (Z.eqb 32) (nth n (split_ws s) []) = None.
Proof.
  apply find_b_none. destruct (nth_in_or_default n (split_ws s) []) as [H | ->]; [|reflexivity].
  unfold split_ws in H. apply filter_In in H as [H _]. apply split_by_none_in in H.
  apply (none_of_forallb (fun c => negb (is_ws c)) (Z.eqb 32)); [|exact H].
  intros c Hc. destruct (Z.eqb_spec 32 c) as [<-|]; [discriminate Hc | reflexivity].
Qed.
