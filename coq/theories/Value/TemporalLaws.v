(** Laws of the temporal text model (Value/Temporal.v):
    - round trips [parse (show v) = Ok v] for every valid DATE (non-negative year), TIME (every
      nanosecond value) and TIMESTAMP, the INTERVAL round trip, injectivity of the printers;
    - totality of the parsers: [Date::from_str] never panics; [Time], [Timestamp] and [Interval]
      parsing never panics under explicit side conditions, and does panic without them
      ([_refuted] witnesses). *)
From Coq Require Import Strings.String.
From Coq Require Import List ZArith Bool Lia.
From VibeSQL Require Import Value.SqlValue Value.Dec Value.DecLaws Value.RStr Value.RStrLaws Value.Temporal.
Import ListNotations.
Open Scope Z_scope.

(** * Character classes of the printed forms *)
Definition q_date (c : Z) : bool := is_digit c || (c =? 45).
Definition q_time (c : Z) : bool := is_digit c || (c =? 58) || (c =? 46).

Lemma digits_q (q : Z -> bool) s : (forall c, is_digit c = true -> q c = true) ->
  forallb is_digit s = true -> forallb q s = true.
Proof. intros H. rewrite !forallb_forall. intros Hs c Hc. apply H, Hs, Hc. Qed.

Lemma digits_none d s : ~ (48 <= d <= 57) -> forallb is_digit s = true -> none (Z.eqb d) s = true.
Proof.
  intros Hd. apply none_of_forallb. intros c Hc. apply is_digit_range in Hc. apply Z.eqb_neq. lia.
Qed.

Lemma eqb46 d : (46 =? d) = true -> d = 46. Proof. intros H. apply Z.eqb_eq in H. lia. Qed.

(** * DATE *)
Lemma show_date_split y m d : 0 <= y -> 0 <= m -> 0 <= d ->
  split_on 45 (show_date y m d) = [show_int_w 4 y; show_int_w 2 m; show_int_w 2 d].
Proof.
  intros Hy Hm Hd. unfold split_on, show_date. cbn [app].
  rewrite split_by_app; [| apply digits_none; [lia | apply show_int_w_digits; lia] | reflexivity].
  rewrite split_by_app; [| apply digits_none; [lia | apply show_int_w_digits; lia] | reflexivity].
  rewrite split_by_none; [reflexivity | apply digits_none; [lia | apply show_int_w_digits; lia]].
Qed.

Lemma date_new_ok y m d : 1 <= m <= 12 -> 1 <= d <= 31 -> date_new y m d = ROk (VDate y m d).
Proof.
  intros Hm Hd. unfold date_new.
  replace ((1 <=? m) && (m <=? 12)) with true by (symmetry; apply andb_true_iff; rewrite !Z.leb_le; lia).
  replace ((1 <=? d) && (d <=? 31)) with true by (symmetry; apply andb_true_iff; rewrite !Z.leb_le; lia).
  reflexivity.
Qed.

(** every DATE that [Date::new] accepts and whose year is not negative reads back from its text *)
Theorem date_roundtrip_thm y m d :
  valid_date y m d -> negative_year (VDate y m d) = false ->
  parse_date (show_date y m d) = ROk (VDate y m d).
Proof.
  intros (Hy & Hm & Hd) Hneg. cbn [negative_year] in Hneg. apply Z.ltb_ge in Hneg.
  unfold parse_date. rewrite show_date_split by lia.
  unfold parse_i32, parse_u8. rewrite !parse_show_int by lia.
  apply date_new_ok; assumption.
Qed.

Example date_roundtrip_ex : parse_date (show_date 2024 2 29) = ROk (VDate 2024 2 29)
  /\ valid_date 2024 2 29 /\ show_date 2024 2 29 = lit "2024-02-29".
Proof. repeat split; try reflexivity; cbv; congruence. Qed.

(** without the side condition the statement is false: year -1 is accepted by [Date::new], prints
    as "-001-01-01" and that text is rejected ([split('-')] yields four parts) *)
Theorem date_roundtrip_refuted_thm :
  exists y m d, valid_date y m d /\ date_new y m d = ROk (VDate y m d)
                /\ negative_year (VDate y m d) = true
                /\ show_date y m d = lit "-001-01-01"
                /\ parse_date (show_date y m d) = RErr.
Proof. exists (-1), 1, 1. unfold valid_date. repeat split; try reflexivity; lia. Qed.

(** * TIME *)
Definition hms_text (h mi s : Z) : str := show_int_w 2 h ++ 58 :: show_int_w 2 mi ++ 58 :: show_int_w 2 s.

Lemma show_time_eq h mi s ns :
  show_time h mi s ns = hms_text h mi s ++ (if ns =? 0 then [] else 46 :: trim_end_zeros (show_int_w 9 ns)).
Proof. unfold show_time, hms_text. cbn [app]. rewrite <- !app_assoc. cbn [app]. rewrite <- !app_assoc. reflexivity. Qed.

Lemma hms_split h mi s : 0 <= h -> 0 <= mi -> 0 <= s ->
  split_on 58 (hms_text h mi s) = [show_int_w 2 h; show_int_w 2 mi; show_int_w 2 s].
Proof.
  intros Hh Hm Hs. unfold split_on, hms_text.
  rewrite split_by_app; [| apply digits_none; [lia | apply show_int_w_digits; lia] | reflexivity].
  rewrite split_by_app; [| apply digits_none; [lia | apply show_int_w_digits; lia] | reflexivity].
  rewrite split_by_none; [reflexivity | apply digits_none; [lia | apply show_int_w_digits; lia]].
Qed.

Lemma hms_q h mi s : 0 <= h -> 0 <= mi -> 0 <= s -> forallb q_time (hms_text h mi s) = true.
Proof.
  intros Hh Hm Hs. unfold hms_text.
  assert (D : forall z, 0 <= z -> forallb q_time (show_int_w 2 z) = true).
  { intros z Hz. apply (digits_q q_time); [|apply show_int_w_digits, Hz].
    intros c Hc. unfold q_time. rewrite Hc. reflexivity. }
  rewrite forallb_app. cbn [forallb]. rewrite forallb_app. cbn [forallb]. rewrite !D by assumption. reflexivity.
Qed.

Lemma q_time_none p s : (forall c, q_time c = true -> p c = false) -> forallb q_time s = true -> none p s = true.
Proof. apply none_of_forallb. Qed.

Lemma q_time_cases c : q_time c = true -> (48 <= c <= 57) \/ c = 58 \/ c = 46.
Proof.
  unfold q_time. rewrite !orb_true_iff, is_digit_range, !Z.eqb_eq. tauto.
Qed.

Lemma hms_nonempty h mi s : 0 <= h -> hms_text h mi s <> [].
Proof.
  intros Hh E. unfold hms_text in E. apply app_eq_nil in E as [E _].
  revert E. apply show_int_w_nonempty, Hh.
Qed.

(** nine digits of nanoseconds *)
Lemma show9_length ns : 0 <= ns <= 999999999 -> length (show_int_w 9 ns) = 9%nat.
Proof.
  intros H. rewrite show_int_w_nonneg by lia. apply pad_left_length_exact.
  apply show_nat_length; [|lia]. change (10 ^ Z.of_nat 9) with 1000000000. lia.
Qed.

Lemma slice_to_all s : slice_to (blen s) s = ROk s.
Proof. unfold slice_to. rewrite <- (app_nil_r s) at 2. rewrite bslice_to_app. reflexivity. Qed.

(** the fraction printed by [Display] (trailing zeros trimmed) reads back as the nanoseconds *)
Lemma frac_roundtrip ns : 0 <= ns <= 999999999 ->
  parse_frac9 (trim_end_zeros (show_int_w 9 ns)) = ROk ns.
Proof.
  intros H. unfold parse_frac9, trim_end_zeros.
  rewrite pad_right_trim by (apply show9_length, H).
  assert (A : all_ascii (show_int_w 9 ns) = true) by (apply digits_ascii, show_int_w_digits; lia).
  rewrite (blen_ascii _ A), show9_length by assumption.
  change (Z.min 9 (Z.of_nat 9)) with 9.
  replace 9 with (blen (show_int_w 9 ns)) at 1 by (rewrite (blen_ascii _ A), show9_length by assumption; reflexivity).
  rewrite slice_to_all. cbn [rbind]. unfold parse_u32. rewrite parse_show_int by lia. reflexivity.
Qed.

Lemma trimmed_frac_digits ns : 0 <= ns -> forallb is_digit (trim_end_zeros (show_int_w 9 ns)) = true.
Proof.
  intros H. unfold trim_end_zeros.
  destruct (trim_end_by_split (Z.eqb 48) (show_int_w 9 ns)) as (z & E & _).
  pose proof (show_int_w_digits 9 ns H) as D. rewrite E, forallb_app in D.
  apply andb_true_iff in D as [D _]. exact D.
Qed.

Lemma time_new_ok h mi s ns : valid_time h mi s ns -> time_new h mi s ns = ROk (VTime h mi s ns).
Proof.
  intros (Hh & Hm & Hs & Hn). unfold time_new.
  replace (23 <? h) with false by (symmetry; apply Z.ltb_ge; lia).
  replace (59 <? mi) with false by (symmetry; apply Z.ltb_ge; lia).
  replace (59 <? s) with false by (symmetry; apply Z.ltb_ge; lia).
  replace (999999999 <? ns) with false by (symmetry; apply Z.ltb_ge; lia).
  reflexivity.
Qed.

Lemma parse_hms_fields h mi s : 0 <= h <= 255 -> 0 <= mi <= 255 -> 0 <= s <= 255 ->
  parse_u8 (show_int_w 2 h) = Some h /\ parse_u8 (show_int_w 2 mi) = Some mi /\ parse_u8 (show_int_w 2 s) = Some s.
Proof. intros Hh Hm Hs. unfold parse_u8. rewrite !parse_show_int by lia. repeat split. Qed.

(** every valid TIME (all 10^9 nanosecond values) reads back from its text *)
Theorem time_roundtrip_thm h mi s ns :
  valid_time h mi s ns -> parse_time (show_time h mi s ns) = ROk (VTime h mi s ns).
Proof.
  intros V. pose proof V as (Hh & Hm & Hs & Hn).
  rewrite show_time_eq. unfold parse_time.
  destruct (parse_hms_fields h mi s ltac:(lia) ltac:(lia) ltac:(lia)) as (Ph & Pm & Ps).
  assert (N46 : none (Z.eqb 46) (hms_text h mi s) = true).
  { apply (q_time_none _ _ ltac:(idtac)) || idtac.
    unfold hms_text. rewrite none_app, none_cons, none_app, none_cons.
    rewrite !digits_none by (try lia; apply show_int_w_digits; lia). reflexivity. }
  destruct (Z.eqb_spec ns 0) as [->|Hnz].
  - rewrite app_nil_r, find_b_none by exact N46. cbn [rbind fst snd].
    rewrite hms_split by lia. rewrite Ph, Pm, Ps. cbn [rbind]. apply time_new_ok, V.
  - rewrite find_b_app by (assumption || reflexivity).
    destruct (slices_at (hms_text h mi s) 46 (trim_end_zeros (show_int_w 9 ns)) eq_refl) as (S1 & _ & S3).
    rewrite S1, S3. cbn [rbind fst snd].
    rewrite hms_split by lia. rewrite Ph, Pm, Ps.
    rewrite frac_roundtrip by lia. cbn [rbind]. apply time_new_ok, V.
Qed.

Example time_roundtrip_ex :
  valid_time 23 59 59 120000000 /\ show_time 23 59 59 120000000 = lit "23:59:59.12"
  /\ parse_time (lit "23:59:59.12") = ROk (VTime 23 59 59 120000000).
Proof. unfold valid_time. repeat split; try reflexivity; lia. Qed.

(** * TIMESTAMP *)
Lemma show_time_q h mi s ns : 0 <= h -> 0 <= mi -> 0 <= s -> 0 <= ns ->
  forallb q_time (show_time h mi s ns) = true.
Proof.
  intros Hh Hm Hs Hn. rewrite show_time_eq, forallb_app, hms_q by assumption.
  destruct (ns =? 0); [reflexivity|]. cbn [forallb andb q_time Z.eqb orb].
  apply (digits_q q_time); [|apply trimmed_frac_digits, Hn].
  intros c Hc. unfold q_time. rewrite Hc. reflexivity.
Qed.

Lemma show_time_nonempty h mi s ns : 0 <= h -> show_time h mi s ns <> [].
Proof.
  intros Hh E. rewrite show_time_eq in E. apply app_eq_nil in E as [E _].
  revert E. apply hms_nonempty, Hh.
Qed.

Lemma show_date_q y m d : 0 <= y -> 0 <= m -> 0 <= d -> forallb q_date (show_date y m d) = true.
Proof.
  intros Hy Hm Hd. unfold show_date.
  assert (D : forall w z, 0 <= z -> forallb q_date (show_int_w w z) = true).
  { intros w z Hz. apply (digits_q q_date); [|apply show_int_w_digits, Hz].
    intros c Hc. unfold q_date. rewrite Hc. reflexivity. }
  rewrite !forallb_app, !D by assumption. reflexivity.
Qed.

Lemma q_date_cases c : q_date c = true -> (48 <= c <= 57) \/ c = 45.
Proof. unfold q_date. rewrite orb_true_iff, is_digit_range, Z.eqb_eq. tauto. Qed.

Lemma is_ws_cases c : is_ws c = true ->
  (9 <= c <= 13) \/ c = 32 \/ c = 133 \/ c = 160 \/ c = 5760 \/ (8192 <= c <= 8202) \/ c = 8232
  \/ c = 8233 \/ c = 8239 \/ c = 8287 \/ c = 12288.
Proof.
  unfold is_ws. rewrite !orb_true_iff, !andb_true_iff, !Z.leb_le, !Z.eqb_eq. tauto.
Qed.

Lemma ws_not_sign c : is_ws c = true -> is_sign c = false.
Proof.
  intros H. apply is_ws_cases in H. unfold is_sign. apply orb_false_iff. rewrite !Z.eqb_neq. lia.
Qed.

Lemma trim_id s c r r' c' : s = c :: r -> is_ws c = false -> s = r' ++ [c'] -> is_ws c' = false -> trim s = s.
Proof.
  intros E1 H1 E2 H2. unfold trim. rewrite E1, drop_while_id by assumption. rewrite <- E1, E2.
  apply trim_end_by_id, H2.
Qed.

Lemma slice_from_1 c r : width c = 1 -> slice_from 1 (c :: r) = ROk r.
Proof.
  intros W. unfold slice_from. cbn [bslice_from]. rewrite W. cbn [Z.eqb Z.ltb Z.compare Z.sub Z.add Z.opp Z.pos_sub].
  destruct r; reflexivity.
Qed.

(** a candidate offset whose tail is 11 bytes or longer is not a timezone offset *)
Lemma is_tz_offset_long c rest : is_sign c = true -> 6 <= blen rest -> is_tz_offset (c :: rest) = ROk false.
Proof.
  intros Hc Hl. unfold is_tz_offset.
  assert (W : width c = 1).
  { unfold is_sign in Hc. apply orb_true_iff in Hc. rewrite !Z.eqb_eq in Hc. destruct Hc; subst; reflexivity. }
  cbn [blen]. rewrite W.
  replace (1 + blen rest <? 3) with false by (symmetry; apply Z.ltb_ge; lia).
  rewrite Hc. cbn [negb]. rewrite slice_from_1 by exact W. cbn [rbind].
  replace (blen rest =? 5) with false by (symmetry; apply Z.eqb_neq; lia).
  replace (blen rest =? 4) with false by (symmetry; apply Z.eqb_neq; lia).
  replace (blen rest =? 2) with false by (symmetry; apply Z.eqb_neq; lia).
  reflexivity.
Qed.

Lemma last_char (s : str) : s <> [] -> exists r c, s = r ++ [c].
Proof. intros H. destruct (exists_last H) as (r & c & E). exists r, c. exact E. Qed.

(** the printed timestamp survives [trim] and [strip_timezone_suffix] untouched *)
Lemma strip_tz_printed y m d h mi s ns :
  0 <= y -> 0 <= m -> 0 <= d -> 0 <= h -> 0 <= mi -> 0 <= s -> 0 <= ns ->
  let text := show_timestamp y m d h mi s ns in
  trim text = text /\ strip_tz text = ROk text.
Proof.
  intros Hy Hm Hd Hh Hmi Hs Hn text.
  set (D := show_date y m d). set (T := show_time h mi s ns).
  assert (QD : forallb q_date D = true) by (apply show_date_q; assumption).
  assert (QT : forallb q_time T = true) by (apply show_time_q; assumption).
  assert (TN : T <> []) by (apply show_time_nonempty; assumption).
  assert (E : text = D ++ 32 :: T) by reflexivity.
  (* first and last characters *)
  destruct (show_int_w 4 y) as [|c0 r0] eqn:EY; [exfalso; revert EY; apply show_int_w_nonempty, Hy|].
  assert (C0 : is_digit c0 = true).
  { pose proof (show_int_w_digits 4 y Hy) as DG. rewrite EY in DG. cbn [forallb] in DG.
    apply andb_true_iff in DG as [DG _]. exact DG. }
  destruct (last_char T TN) as (rT & cT & ET).
  assert (CT : q_time cT = true).
  { rewrite forallb_forall in QT. apply QT. rewrite ET. apply in_or_app. right. left. reflexivity. }
  assert (WS0 : is_ws c0 = false).
  { apply is_digit_range in C0. destruct (is_ws c0) eqn:W; [|reflexivity]. apply is_ws_cases in W. lia. }
  assert (WST : is_ws cT = false).
  { apply q_time_cases in CT. destruct (is_ws cT) eqn:W; [|reflexivity]. apply is_ws_cases in W. lia. }
  assert (Etext1 : text = c0 :: (r0 ++ [45] ++ show_int_w 2 m ++ [45] ++ show_int_w 2 d) ++ 32 :: T).
  { rewrite E. unfold D, show_date. rewrite EY. cbn [app]. rewrite <- !app_assoc. reflexivity. }
  assert (Etext2 : text = (D ++ 32 :: rT) ++ [cT]).
  { rewrite E, ET, <- app_assoc. reflexivity. }
  split; [eapply trim_id; eassumption|].
  (* strip_tz *)
  unfold strip_tz.
  rewrite Etext2 at 1 2. rewrite !ends_with_app.
  replace (cT =? 90) with false by (symmetry; apply Z.eqb_neq; apply q_time_cases in CT; lia).
  replace (cT =? 122) with false by (symmetry; apply Z.eqb_neq; apply q_time_cases in CT; lia).
  cbn [orb].
  (* the last sign is the second '-' of the date *)
  set (a := show_int_w 4 y ++ 45 :: show_int_w 2 m).
  set (b := show_int_w 2 d ++ 32 :: T).
  assert (Eab : text = a ++ 45 :: b).
  { rewrite E. unfold D, show_date, a, b. repeat (progress (rewrite <- ?app_assoc; cbn [app])). reflexivity. }
  assert (Nb : none is_sign b = true).
  { unfold b. rewrite none_app, none_cons.
    rewrite (none_of_forallb is_digit is_sign) by
      (try (apply show_int_w_digits; assumption); intros c Hc; apply is_digit_range in Hc;
       unfold is_sign; apply orb_false_iff; rewrite !Z.eqb_neq; lia).
    rewrite (none_of_forallb q_time is_sign _ ltac:(intros c Hc; apply q_time_cases in Hc;
       unfold is_sign; apply orb_false_iff; rewrite !Z.eqb_neq; lia) QT).
    reflexivity. }
  rewrite Eab.
  rewrite rfind_b_app by (assumption || reflexivity).
  destruct (10 <? blen a); [|reflexivity].
  destruct (slices_at a 45 b eq_refl) as (_ & S2 & _). rewrite S2. cbn [rbind].
  rewrite is_tz_offset_long; [reflexivity | reflexivity |].
  unfold b. rewrite blen_app. cbn [blen].
  pose proof (blen_length_le (show_int_w 2 d)). pose proof (show_int_w_length 2 d Hd).
  pose proof (blen_length_le T).
  assert (3 <= length T)%nat.
  { unfold T. rewrite show_time_eq, app_length. unfold hms_text. rewrite app_length. cbn [length].
    pose proof (show_int_w_length 2 h Hh). lia. }
  change (width 32) with 1. lia.
Qed.

(** every valid TIMESTAMP with a non-negative year reads back from its text *)
Theorem timestamp_roundtrip_thm y m d h mi s ns :
  valid_date y m d -> valid_time h mi s ns -> negative_year (VTimestamp y m d h mi s ns) = false ->
  parse_timestamp (show_timestamp y m d h mi s ns) = ROk (VTimestamp y m d h mi s ns).
Proof.
  intros VD VT Hneg. pose proof VD as (Hy & Hm & Hd). pose proof VT as (Hh & Hmi & Hs & Hn).
  cbn [negative_year] in Hneg. apply Z.ltb_ge in Hneg.
  destruct (strip_tz_printed y m d h mi s ns) as (TR & ST); try lia.
  unfold parse_timestamp. rewrite TR, ST. cbn [rbind].
  set (D := show_date y m d). set (T := show_time h mi s ns).
  assert (QD : forallb q_date D = true) by (apply show_date_q; lia).
  assert (QT : forallb q_time T = true) by (apply show_time_q; lia).
  assert (E : show_timestamp y m d h mi s ns = D ++ 32 :: T) by reflexivity.
  rewrite E.
  assert (NDT : forall p, (forall c, q_date c = true -> p c = false) -> (forall c, q_time c = true -> p c = false) ->
                          p 32 = false -> none p (D ++ 32 :: T) = true).
  { intros p H1 H2 H3. rewrite none_app, none_cons, H3.
    rewrite (none_of_forallb q_date p D H1 QD), (none_of_forallb q_time p T H2 QT). reflexivity. }
  rewrite find_b_none.
  2:{ apply NDT; [intros c Hc; apply q_date_cases in Hc | intros c Hc; apply q_time_cases in Hc | reflexivity];
      apply Z.eqb_neq; lia. }
  unfold split_ws.
  rewrite split_by_app; [| | reflexivity].
  2:{ apply (none_of_forallb q_date is_ws D); [|exact QD]. intros c Hc. apply q_date_cases in Hc.
      destruct (is_ws c) eqn:W; [|reflexivity]. apply is_ws_cases in W. lia. }
  rewrite split_by_none.
  2:{ apply (none_of_forallb q_time is_ws T); [|exact QT]. intros c Hc. apply q_time_cases in Hc.
      destruct (is_ws c) eqn:W; [|reflexivity]. apply is_ws_cases in W. lia. }
  cbn [filter].
  assert (DN : is_nil D = false).
  { unfold D, show_date. destruct (show_int_w 4 y) eqn:EY; [exfalso; revert EY; apply show_int_w_nonempty; lia | reflexivity]. }
  assert (TN : is_nil T = false).
  { destruct T eqn:ET; [exfalso; revert ET; apply show_time_nonempty; lia | reflexivity]. }
  rewrite DN, TN. cbn [negb].
  unfold D, T. rewrite date_roundtrip_thm by (try assumption; cbn [negative_year]; apply Z.ltb_ge; lia).
  rewrite time_roundtrip_thm by assumption. reflexivity.
Qed.

Example timestamp_roundtrip_ex :
  show_timestamp 2024 1 5 1 2 3 500000000 = lit "2024-01-05 01:02:03.5"
  /\ parse_timestamp (lit "2024-01-05 01:02:03.5") = ROk (VTimestamp 2024 1 5 1 2 3 500000000).
Proof. split; reflexivity. Qed.

Theorem timestamp_roundtrip_refuted_thm :
  exists y m d h mi s ns, valid_date y m d /\ valid_time h mi s ns
    /\ negative_year (VTimestamp y m d h mi s ns) = true
    /\ parse_timestamp (show_timestamp y m d h mi s ns) = RErr.
Proof. exists (-1), 1, 1, 0, 0, 0, 0. unfold valid_date, valid_time. repeat split; try reflexivity; lia. Qed.

(** the same through [SqlValue]'s Display (display.rs delegates to the inner Display) *)

Theorem value_roundtrip_thm v t :
  valid_temporal v -> negative_year v = false -> show_temporal v = Some t ->
  parse_as v t = ROk v /\ (forall w, parse_as v t = ROk w -> eqb v w = true).
Proof.
  intros V N S.
  assert (P : parse_as v t = ROk v).
  { destruct v; try contradiction; cbn [show_temporal] in S; inversion S; subst; cbn [parse_as valid_temporal] in *.
    - apply date_roundtrip_thm; assumption.
    - apply time_roundtrip_thm; assumption.
    - destruct V. apply timestamp_roundtrip_thm; assumption. }
  split; [exact P|]. intros w Hw. rewrite P in Hw. inversion Hw; subst.
  destruct w; try contradiction; cbn [eqb]; rewrite ?Z.eqb_refl; reflexivity.
Qed.

(** printing is injective on the values covered by the round trip *)
Corollary show_temporal_inj v w t :
  valid_temporal v -> valid_temporal w -> negative_year v = false -> negative_year w = false ->
  show_temporal v = Some t -> show_temporal w = Some t ->
  (match v, w with
   | VDate _ _ _, VDate _ _ _ | VTime _ _ _ _, VTime _ _ _ _
   | VTimestamp _ _ _ _ _ _ _, VTimestamp _ _ _ _ _ _ _ => True | _, _ => False end) ->
  v = w.
Proof.
  intros Vv Vw Nv Nw Sv Sw K.
  destruct (value_roundtrip_thm v t Vv Nv Sv) as (Pv & _).
  destruct (value_roundtrip_thm w t Vw Nw Sw) as (Pw & _).
  destruct v, w; try contradiction; cbn [parse_as] in *; congruence.
Qed.

(** * INTERVAL round trip: Display prints the stored text, so re-parsing the printed text runs
    the same function on the same input and gives an equal ([eqb]) value *)
Theorem interval_roundtrip_thm s i :
  interval_new s = ROk i ->
  show_interval i = s
  /\ interval_new (show_interval i) = ROk i
  /\ (forall j, interval_new (show_interval i) = ROk j -> eqb (interval_value i) (interval_value j) = true).
Proof.
  intros H.
  assert (E : show_interval i = s).
  { unfold interval_new in H. destruct (parse_interval s) as [[[mo d] us]| |]; cbn [rbind] in H; try discriminate.
    inversion H; subst. reflexivity. }
  split; [exact E|]. rewrite E. split; [exact H|].
  intros j Hj. rewrite H in Hj. inversion Hj; subst. unfold interval_value. cbn [eqb].
  rewrite !Z.eqb_refl. reflexivity.
Qed.

Example interval_roundtrip_ex :
  interval_new (lit "1-6 YEAR TO MONTH") = ROk {| iv_text := lit "1-6 YEAR TO MONTH"; iv_months := 18; iv_days := 0; iv_micros := 0 |}.
Proof. reflexivity. Qed.

(** * Totality: which inputs can make the parsers panic *)

Lemma rbind_no_panic {A B} (r : res A) (f : A -> res B) :
  is_panic r = false -> (forall a, r = ROk a -> is_panic (f a) = false) -> is_panic (rbind r f) = false.
Proof. intros Hr Hf. destruct r; cbn [rbind is_panic] in *; [apply Hf; reflexivity | reflexivity | discriminate]. Qed.

Lemma date_new_no_panic y m d : is_panic (date_new y m d) = false.
Proof. unfold date_new. destruct ((1 <=? m) && (m <=? 12)), ((1 <=? d) && (d <=? 31)); reflexivity. Qed.

Lemma time_new_no_panic h mi s ns : is_panic (time_new h mi s ns) = false.
Proof. unfold time_new. destruct (23 <? h), (59 <? mi), (59 <? s), (999999999 <? ns); reflexivity. Qed.

Lemma mk_timestamp_no_panic d t : is_panic (mk_timestamp d t) = false.
Proof. destruct d, t; reflexivity. Qed.

(** [Date::from_str] never panics, on any string whatsoever *)
Theorem parse_date_total_thm s : is_panic (parse_date s) = false.
Proof.
  unfold parse_date. destruct (split_on 45 s) as [|a [|b [|c [|? ?]]]]; try reflexivity.
  destruct (parse_i32 a); [|reflexivity]. destruct (parse_u8 b); [|reflexivity].
  destruct (parse_u8 c); [|reflexivity]. apply date_new_no_panic.
Qed.

Example parse_date_total_ex : parse_date [45; 233; 45; 8364; 45] = RErr /\ parse_date [] = RErr.
Proof. split; reflexivity. Qed.

(** ** TIME *)
Lemma pad_right_blen9 w f : Z.of_nat w <= blen (pad_right w f).
Proof. pose proof (blen_length_le (pad_right w f)). pose proof (pad_right_length w f). lia. Qed.

Lemma parse_frac9_ascii f : all_ascii f = true -> is_panic (parse_frac9 f) = false.
Proof.
  intros A. unfold parse_frac9, slice_to.
  assert (Ap : all_ascii (pad_right 9 f) = true) by (apply pad_right_ascii, A).
  pose proof (blen_nonneg (pad_right 9 f)).
  destruct (bslice_to_ascii (pad_right 9 f) (Z.min 9 (blen (pad_right 9 f))) Ap ltac:(lia)) as (p & -> & _).
  cbn [rbind]. destruct (parse_u32 p); reflexivity.
Qed.

(** exactly when the fraction step panics: byte 9 of the zero-padded fraction is inside a character *)

Lemma parse_frac9_panic_iff f : is_panic (parse_frac9 f) = frac_cut f.
Proof.
  unfold parse_frac9, frac_cut, slice_to.
  pose proof (pad_right_blen9 9 f) as L. change (Z.of_nat 9) with 9 in L.
  rewrite Z.min_l by lia.
  destruct (bslice_to 9 (pad_right 9 f)); [|reflexivity].
  cbn [rbind]. destruct (parse_u32 s); reflexivity.
Qed.

Lemma frac_nonascii_infix x s : infix x s -> frac_nonascii s = false -> frac_nonascii x = false.
Proof.
  intros Hi. unfold frac_nonascii. destruct (after_first (Z.eqb 46) x) as [f|] eqn:E; [|reflexivity].
  destruct (after_first_infix _ _ _ _ Hi E) as (f' & -> & Hf). intros Hs.
  apply negb_false_iff in Hs. apply negb_false_iff. eapply all_ascii_infix; eassumption.
Qed.

Lemma frac_ascii_of a b : none (Z.eqb 46) a = true -> frac_nonascii (a ++ 46 :: b) = false -> all_ascii b = true.
Proof.
  intros Ha H. unfold frac_nonascii in H. rewrite after_first_app in H by (assumption || reflexivity).
  apply negb_false_iff in H. exact H.
Qed.

(** [Time::from_str] never panics on a text whose part after the first '.' is ASCII *)
Theorem parse_time_total_thm s : frac_nonascii s = false -> is_panic (parse_time s) = false.
Proof.
  intros Hf. unfold parse_time. destruct (find_b (Z.eqb 46) s) as [k|] eqn:F.
  - destruct (find_b_inv _ _ _ F) as (a & d & b & -> & -> & Hd & Ha). apply eqb46 in Hd. subst d.
    destruct (slices_at a 46 b eq_refl) as (S1 & _ & S3). rewrite S1, S3. cbn [rbind fst snd].
    pose proof (frac_ascii_of a b Ha Hf) as Ab.
    destruct (split_on 58 a) as [|x [|y [|z [|? ?]]]]; try reflexivity.
    destruct (parse_u8 x); [|reflexivity]. destruct (parse_u8 y); [|reflexivity].
    destruct (parse_u8 z); [|reflexivity].
    apply rbind_no_panic; [apply parse_frac9_ascii, Ab | intros; apply time_new_no_panic].
  - cbn [rbind fst snd].
    destruct (split_on 58 s) as [|x [|y [|z [|? ?]]]]; try reflexivity.
    destruct (parse_u8 x); [|reflexivity]. destruct (parse_u8 y); [|reflexivity].
    destruct (parse_u8 z); [|reflexivity]. cbn [rbind]. apply time_new_no_panic.
Qed.

(** ... and the panic is characterised exactly: it happens iff the three time fields parse and the
    fraction is cut inside a character *)
Theorem parse_time_panic_inv s k :
  parse_time s = RPanic k ->
  k = PSlice /\ exists f, after_first (Z.eqb 46) s = Some f /\ frac_cut f = true.
Proof.
  unfold parse_time. destruct (find_b (Z.eqb 46) s) as [p|] eqn:F.
  - destruct (find_b_inv _ _ _ F) as (a & d & b & -> & -> & Hd & Ha). apply eqb46 in Hd. subst d.
    destruct (slices_at a 46 b eq_refl) as (S1 & _ & S3). rewrite S1, S3. cbn [rbind fst snd].
    rewrite after_first_app by (assumption || reflexivity).
    destruct (split_on 58 a) as [|x [|y [|z [|? ?]]]]; try discriminate.
    destruct (parse_u8 x); [|discriminate]. destruct (parse_u8 y); [|discriminate].
    destruct (parse_u8 z); [|discriminate].
    pose proof (parse_frac9_panic_iff b) as PI.
    destruct (parse_frac9 b) as [n| |k'] eqn:PF; cbn [rbind is_panic] in *.
    + intros H. pose proof (time_new_no_panic z0 z1 z2 n) as NP. rewrite H in NP. discriminate.
    + discriminate.
    + intros H. inversion H; subst. split; [|exists b; split; [reflexivity | symmetry; exact PI]].
      unfold parse_frac9, slice_to in PF.
      destruct (bslice_to _ _); cbn [rbind] in PF; [destruct (parse_u32 s); discriminate | inversion PF; reflexivity].
  - cbn [rbind fst snd].
    destruct (split_on 58 s) as [|x [|y [|z [|? ?]]]]; try discriminate.
    destruct (parse_u8 x); [|discriminate]. destruct (parse_u8 y); [|discriminate].
    destruct (parse_u8 z); [|discriminate]. cbn [rbind]. intros H.
    pose proof (time_new_no_panic z0 z1 z2 0) as NP. rewrite H in NP. discriminate.
Qed.

Example parse_time_total_ex :
  frac_nonascii (lit "12:30:45.5x") = false /\ parse_time (lit "12:30:45.5x") = RErr
  /\ frac_nonascii ([233] ++ lit ":30:45.5") = false /\ parse_time ([233] ++ lit ":30:45.5") = RErr.
Proof. repeat split; reflexivity. Qed.

(** the unconditional statement is false: "00:00:00.ééééé" ([&padded[..9]] cuts the fifth 'é') *)
Theorem parse_time_total_refuted_thm :
  exists s, frac_nonascii s = true /\ parse_time s = RPanic PSlice.
Proof. exists (lit "00:00:00." ++ [233; 233; 233; 233; 233]). split; reflexivity. Qed.

(** ** TIMESTAMP *)
Lemma sign_width c : is_sign c = true -> width c = 1.
Proof. unfold is_sign. rewrite orb_true_iff, !Z.eqb_eq. intros [->| ->]; reflexivity. Qed.

Lemma is_tz_offset_ascii c b : is_sign c = true -> all_ascii b = true -> exists r, is_tz_offset (c :: b) = ROk r.
Proof.
  intros Hc Ab. unfold is_tz_offset. destruct (blen (c :: b) <? 3); [eexists; reflexivity|].
  rewrite Hc. cbn [negb]. rewrite slice_from_1 by (apply sign_width, Hc). cbn [rbind].
  destruct ((blen b =? 5) && match nth_error b 2 with Some c0 => c0 =? 58 | None => false end) eqn:K.
  - apply andb_true_iff in K as [K _]. apply Z.eqb_eq in K. unfold slice_to, slice_from.
    destruct (bslice_to_ascii b 2 Ab ltac:(lia)) as (p & -> & _). cbn [rbind].
    destruct (forallb is_digit p); [|eexists; reflexivity].
    destruct (bslice_from_ascii b 3 Ab ltac:(lia)) as (q & ->). cbn [rbind]. eexists; reflexivity.
  - destruct (blen b =? 4); [eexists; reflexivity|]. destruct (blen b =? 2); eexists; reflexivity.
Qed.

Lemma tz_ascii_of a d b : is_sign d = true -> none is_sign b = true ->
  tz_nonascii (a ++ d :: b) = false -> all_ascii b = true.
Proof.
  intros Hd Hb H. unfold tz_nonascii in H. rewrite after_last_app in H by assumption.
  apply negb_false_iff in H. exact H.
Qed.

Lemma tz_cond_trim s : tz_nonascii s = false -> tz_nonascii (trim s) = false.
Proof.
  intros H. destruct (trim_split s) as (wa & wz & E & _ & Wz).
  unfold tz_nonascii. destruct (after_last is_sign (trim s)) as [b|] eqn:AL; [|reflexivity].
  destruct (after_last_inv _ _ _ AL) as (a & d & Et & Hd & Hb).
  assert (Nz : none is_sign wz = true) by (apply (none_of_forallb is_ws is_sign); [apply ws_not_sign | exact Wz]).
  assert (Es : s = (wa ++ a) ++ d :: (b ++ wz)).
  { rewrite E, Et, <- !app_assoc. cbn [app]. reflexivity. }
  rewrite Es in H. apply tz_ascii_of in H; [| exact Hd | rewrite none_app, Hb, Nz; reflexivity].
  rewrite all_ascii_app in H. apply andb_true_iff in H as [H _]. apply negb_false_iff. exact H.
Qed.

Lemma strip_tz_ok t : tz_nonascii t = false -> exists part, strip_tz t = ROk part /\ infix part t.
Proof.
  intros H. unfold strip_tz. destruct (ends_with 90 t || ends_with 122 t) eqn:EW.
  - assert (R : exists r c, t = r ++ [c] /\ width c = 1).
    { apply orb_true_iff in EW as [EW|EW]; apply ends_with_inv in EW as (r & ->); eexists _, _; split; reflexivity. }
    destruct R as (r & c & -> & W). rewrite blen_app. cbn [blen]. rewrite W.
    replace (blen r + (1 + 0) - 1) with (blen r) by lia.
    unfold slice_to. rewrite bslice_to_app. exists r. split; [reflexivity | apply infix_prefix].
  - destruct (rfind_b is_sign t) as [k|] eqn:R; [|exists t; split; [reflexivity | apply infix_refl]].
    destruct (rfind_b_inv _ _ _ R) as (a & d & b & -> & -> & Hd & Hb).
    destruct (10 <? blen a); [|eexists; split; [reflexivity | apply infix_refl]].
    destruct (slices_at a d b (sign_width d Hd)) as (S1 & S2 & _). rewrite S2. cbn [rbind].
    destruct (is_tz_offset_ascii d b Hd (tz_ascii_of a d b Hd Hb H)) as ([|] & ->); cbn [rbind].
    + rewrite S1. exists a. split; [reflexivity | apply infix_prefix].
    + eexists; split; [reflexivity | apply infix_refl].
Qed.

(** [Timestamp::from_str] never panics on a text that is ASCII after its first '.' and after its
    last '+'/'-' *)
Theorem parse_timestamp_total_thm s :
  frac_nonascii s = false -> tz_nonascii s = false -> is_panic (parse_timestamp s) = false.
Proof.
  intros Hf Hz. unfold parse_timestamp.
  destruct (strip_tz_ok (trim s) (tz_cond_trim s Hz)) as (part & -> & Hi). cbn [rbind].
  assert (Hps : infix part s) by (eapply infix_trans; [exact Hi | apply trim_infix]).
  destruct (find_b (Z.eqb 84) part) as [k|] eqn:F.
  - destruct (find_b_inv _ _ _ F) as (a & d & b & -> & -> & Hd & Ha).
    apply Z.eqb_eq in Hd. subst d.
    destruct (slices_at a 84 b eq_refl) as (S1 & _ & S3). rewrite S1, S3. cbn [rbind].
    apply rbind_no_panic; [apply parse_date_total_thm | intros dv _].
    apply rbind_no_panic; [| intros tv _; apply mk_timestamp_no_panic].
    apply parse_time_total_thm. apply (frac_nonascii_infix b s); [|exact Hf].
    eapply infix_trans; [|exact Hps]. exists (a ++ [84]), []. rewrite app_nil_r, <- app_assoc. reflexivity.
  - destruct (split_ws part) as [|x [|y [|? ?]]] eqn:SW; try reflexivity.
    + pose proof (parse_date_total_thm x) as PD.
      destruct (parse_date x); [apply mk_timestamp_no_panic | reflexivity | discriminate].
    + apply rbind_no_panic; [apply parse_date_total_thm | intros dv _].
      apply rbind_no_panic; [| intros tv _; apply mk_timestamp_no_panic].
      apply parse_time_total_thm. apply (frac_nonascii_infix y s); [|exact Hf].
      eapply infix_trans; [|exact Hps]. apply split_ws_infix. rewrite SW. right. left. reflexivity.
Qed.

Example parse_timestamp_total_ex :
  let s := [160] ++ lit "2024-01-05T01:02:03.25+05:30 " in
  frac_nonascii s = false /\ tz_nonascii s = false
  /\ parse_timestamp s = ROk (VTimestamp 2024 1 5 1 2 3 250000000).
Proof. repeat split; reflexivity. Qed.

(** both side conditions are needed *)
Theorem parse_timestamp_total_refuted_frac_thm :
  exists s, frac_nonascii s = true /\ tz_nonascii s = false /\ parse_timestamp s = RPanic PSlice.
Proof. exists (lit "2024-01-01 00:00:00." ++ [233; 233; 233; 233; 233] ++ lit "+"). repeat split; reflexivity. Qed.

Theorem parse_timestamp_total_refuted_tz_thm :
  exists s, frac_nonascii s = false /\ tz_nonascii s = true /\ parse_timestamp s = RPanic PSlice.
Proof. exists (lit "2024-01-01 00:00:00+1" ++ [233] ++ lit ":2"). repeat split; reflexivity. Qed.

(** ** INTERVAL *)
Lemma chk_ok lo hi r : lo <= r <= hi -> chk lo hi r = ROk r.
Proof.
  intros H. unfold chk. replace ((lo <=? r) && (r <=? hi)) with true; [reflexivity|].
  symmetry. apply andb_true_iff. rewrite !Z.leb_le. lia.
Qed.

Lemma nth_split_ws_infix s n : infix (nth n (split_ws s) []) s.
Proof.
  destruct (nth_in_or_default n (split_ws s) []) as [H | ->]; [apply split_ws_infix, H | apply infix_nil].
Qed.

Lemma to_unit_exists (parts : list str) k x :
  nth_error parts k = Some x -> eq_ic x kw_to = true ->
  match rev parts with w :: _ => eq_ic w kw_to | [] => false end = false ->
  exists u, nth_error parts (k + 1) = Some u.
Proof.
  intros Hk Hx Hl. destruct (nth_error parts (k + 1)) as [u|] eqn:E; [eauto|]. exfalso.
  apply nth_error_None in E.
  assert (k < length parts)%nat by (apply nth_error_Some; congruence).
  destruct (nth_error_last parts k x Hk ltac:(lia)) as (r & ->).
  rewrite rev_app_distr in Hl. cbn [rev app] in Hl. congruence.
Qed.

Section IntervalTotal.
  Variable s : str.
  Hypothesis Hfrac : frac_nonascii s = false.
  Hypothesis Hnum : long_number s = false.

  Lemma small_parse sg lo hi x v : infix x s -> parse_int sg lo hi x = Some v -> -100000000 < v < 100000000.
  Proof.
    intros Hi P. apply parse_int_inv in P as (ds & Hs & _ & Hd & Hb & _).
    assert (Hds : infix ds s).
    { eapply infix_trans; [|exact Hi]. destruct Hs as [->|[->| ->]];
        [apply infix_refl | apply infix_cons, infix_refl | apply infix_cons, infix_refl]. }
    pose proof (max_run_infix ds s Hds Hd) as L.
    unfold long_number in Hnum. apply Nat.ltb_ge in Hnum.
    assert (10 ^ Z.of_nat (length ds) <= 10 ^ 8) by (apply Z.pow_le_mono_r; lia).
    change (10 ^ 8) with 100000000 in *. lia.
  Qed.

  Lemma or0_small sg lo hi x : infix x s -> -100000000 < or0 (parse_int sg lo hi x) < 100000000.
  Proof.
    intros Hi. unfold or0. destruct (parse_int sg lo hi x) eqn:P; [|lia].
    eapply small_parse; eassumption.
  Qed.

  Lemma seconds_ok x : infix x s ->
    exists v, parse_seconds_us x = ROk v /\ -100000001000000 < v < 100000001000000.
  Proof.
    intros Hi. unfold parse_seconds_us. destruct (find_b (Z.eqb 46) x) as [k|] eqn:F.
    - destruct (find_b_inv _ _ _ F) as (a & d & b & -> & -> & Hd & Ha). apply eqb46 in Hd. subst d.
      destruct (slices_at a 46 b eq_refl) as (S1 & _ & S3). rewrite S1, S3. cbn [rbind].
      pose proof (frac_ascii_of a b Ha (frac_nonascii_infix _ _ Hi Hfrac)) as Ab.
      assert (Ap : all_ascii (pad_right 6 b) = true) by (apply pad_right_ascii, Ab).
      pose proof (pad_right_blen9 6 b) as L6. change (Z.of_nat 6) with 6 in L6.
      destruct (bslice_to_ascii (pad_right 6 b) 6 Ap ltac:(lia)) as (f6 & E6 & Lf).
      unfold slice_to. rewrite E6. cbn [rbind].
      assert (Hw : -100000000 < or0 (parse_i64 a) < 100000000).
      { apply or0_small. eapply infix_trans; [apply infix_prefix | exact Hi]. }
      assert (Hfr : -1000000 < or0 (parse_i64 f6) < 1000000).
      { unfold or0. destruct (parse_i64 f6) eqn:P; [|lia]. apply parse_int_abs_bound in P.
        rewrite Lf in P. change (10 ^ Z.of_nat (Z.to_nat 6)) with 1000000 in P. lia. }
      unfold mul64. rewrite chk_ok by lia. cbn [rbind]. unfold add64. rewrite chk_ok by lia.
      eexists. split; [reflexivity | lia].
    - pose proof (or0_small true (-9223372036854775808) 9223372036854775807 x Hi) as Hw.
      fold parse_i64 in Hw. unfold mul64. rewrite chk_ok by lia.
      eexists. split; [reflexivity | lia].
  Qed.

  Lemma field_ok t p k : infix p s -> k = 3600 \/ k = 60 ->
    -1000000000000000000 < t < 1000000000000000000 ->
    exists v, match parse_i64 p with
              | Some h => a <- mul64 h k ;; b <- mul64 a 1000000 ;; add64 t b
              | None => ROk t
              end = ROk v
              /\ -360000000000000000 <= v - t <= 360000000000000000.
  Proof.
    intros Hi Hk Ht. destruct (parse_i64 p) as [h|] eqn:P; [|exists t; split; [reflexivity | lia]].
    pose proof (small_parse _ _ _ _ _ Hi P) as Hh.
    unfold mul64, add64. destruct Hk; subst k;
      (rewrite chk_ok by lia; cbn [rbind]; rewrite chk_ok by lia; cbn [rbind]; rewrite chk_ok by lia;
       eexists; split; [reflexivity | lia]).
  Qed.

  Lemma time_us_ok x : infix x s -> exists v, parse_time_us x = ROk v.
  Proof.
    intros Hi. unfold parse_time_us, split_on.
    pose proof (split_by_infix (Z.eqb 58) x) as SI.
    assert (SI' : forall p, In p (split_by (Z.eqb 58) x) -> infix p s).
    { intros p Hp. eapply infix_trans; [apply SI, Hp | exact Hi]. }
    clear SI.
    destruct (split_by (Z.eqb 58) x) as [|p0 [|p1 [|p2 rest]]].
    - cbn [rbind]. eexists; reflexivity.
    - destruct (field_ok 0 p0 3600 (SI' p0 ltac:(left; reflexivity)) ltac:(left; reflexivity) ltac:(lia)) as (v1 & -> & B1).
      cbn [rbind]. eexists; reflexivity.
    - destruct (field_ok 0 p0 3600 (SI' p0 ltac:(left; reflexivity)) ltac:(left; reflexivity) ltac:(lia)) as (v1 & -> & B1).
      cbn [rbind].
      destruct (field_ok v1 p1 60 (SI' p1 ltac:(right; left; reflexivity)) ltac:(right; reflexivity) ltac:(lia)) as (v2 & -> & B2).
      cbn [rbind]. eexists; reflexivity.
    - destruct (field_ok 0 p0 3600 (SI' p0 ltac:(left; reflexivity)) ltac:(left; reflexivity) ltac:(lia)) as (v1 & -> & B1).
      cbn [rbind].
      destruct (field_ok v1 p1 60 (SI' p1 ltac:(right; left; reflexivity)) ltac:(right; reflexivity) ltac:(lia)) as (v2 & -> & B2).
      cbn [rbind].
      destruct (seconds_ok p2 (SI' p2 ltac:(right; right; left; reflexivity))) as (v3 & -> & B3).
      cbn [rbind]. unfold add64. rewrite chk_ok by lia. eexists; reflexivity.
  Qed.

  Lemma mul32_12_ok x : infix x s -> mul32 (or0 (parse_i32 x)) 12 = ROk (or0 (parse_i32 x) * 12).
  Proof. intros Hi. pose proof (or0_small true (-2147483648) 2147483647 x Hi) as H. fold parse_i32 in H. unfold mul32. apply chk_ok. lia. Qed.

  Lemma interval_simple_ok v u : infix v s -> is_panic (interval_simple v u) = false.
  Proof.
    intros Hi. unfold interval_simple.
    pose proof (or0_small true (-9223372036854775808) 9223372036854775807 v Hi) as H64. fold parse_i64 in H64.
    repeat match goal with |- context [if ?c then _ else _] => destruct c end; try reflexivity.
    - rewrite mul32_12_ok by assumption. reflexivity.
    - unfold mul64. rewrite chk_ok by lia. cbn [rbind]. rewrite chk_ok by lia. reflexivity.
    - unfold mul64. rewrite chk_ok by lia. cbn [rbind]. rewrite chk_ok by lia. reflexivity.
    - destruct (seconds_ok v Hi) as (x & -> & _). reflexivity.
  Qed.

  Hypothesis Hto : to_is_last s = false.

  Lemma interval_compound_ok k :
    position (fun p => eq_ic p kw_to) (split_ws s) = Some k ->
    is_panic (interval_compound (split_ws s) k) = false.
  Proof.
    intros P. unfold interval_compound.
    destruct (position_inv _ _ _ P) as (x & Hx & Ex).
    destruct (to_unit_exists (split_ws s) k x Hx Ex Hto) as (u & ->). cbn [rbind].
    pose proof (nth_split_ws_infix s 0) as Hv. set (vp := nth 0 (split_ws s) []) in *.
    repeat match goal with |- context [if ?c then _ else _] => destruct c end; try reflexivity.
    - destruct (find_b (Z.eqb 45) vp) as [n|] eqn:F.
      + destruct (find_b_inv _ _ _ F) as (a & d & b & E & -> & Hd & Ha). apply Z.eqb_eq in Hd. subst d.
        rewrite E. destruct (slices_at a 45 b eq_refl) as (S1 & _ & S3). rewrite S1, S3. cbn [rbind].
        assert (Ia : infix a s) by (eapply infix_trans; [apply infix_prefix | rewrite <- E; exact Hv]).
        assert (Ib : infix b s).
        { eapply infix_trans; [|exact Hv]. rewrite E. exists (a ++ [45]), []. rewrite app_nil_r, <- app_assoc. reflexivity. }
        rewrite mul32_12_ok by assumption. cbn [rbind].
        pose proof (or0_small true (-2147483648) 2147483647 a Ia) as Ha'. pose proof (or0_small true (-2147483648) 2147483647 b Ib) as Hb'.
        fold parse_i32 in Ha', Hb'. unfold add32. rewrite chk_ok by lia. reflexivity.
      + rewrite mul32_12_ok by assumption. reflexivity.
    - destruct (find_b (Z.eqb 32) vp) as [n|] eqn:F; [|reflexivity].
      destruct (find_b_inv _ _ _ F) as (a & d & b & E & -> & Hd & Ha). apply Z.eqb_eq in Hd. subst d.
      rewrite E. destruct (slices_at a 32 b eq_refl) as (S1 & _ & S3). rewrite S1, S3. cbn [rbind].
      assert (Ib : infix (trim b) s).
      { eapply infix_trans; [apply trim_infix|]. eapply infix_trans; [|exact Hv]. rewrite E.
        exists (a ++ [32]), []. rewrite app_nil_r, <- app_assoc. reflexivity. }
      destruct (time_us_ok _ Ib) as (v & ->). reflexivity.
    - destruct (time_us_ok _ Hv) as (v & ->). reflexivity.
  Qed.

  Theorem parse_interval_total_sec : is_panic (parse_interval s) = false.
  Proof.
    unfold parse_interval. destruct (split_ws s) as [|p0 ps] eqn:SW; [reflexivity|].
    destruct (position (fun p => eq_ic p kw_to) (p0 :: ps)) as [k|] eqn:P.
    - destruct (2 <=? k)%nat; [|reflexivity]. rewrite <- SW. apply interval_compound_ok. rewrite SW. exact P.
    - destruct ps as [|u rest]; [reflexivity|]. apply interval_simple_ok.
      apply split_ws_infix. rewrite SW. left. reflexivity.
  Qed.
End IntervalTotal.

(** [Interval::new] / [Interval::from_str] never panic on a text that is ASCII after its first
    '.', has no run of more than eight digits, and does not end in the word TO *)
Theorem parse_interval_total_thm s :
  frac_nonascii s = false -> long_number s = false -> to_is_last s = false ->
  is_panic (parse_interval s) = false /\ is_panic (interval_new s) = false.
Proof.
  intros H1 H2 H3. pose proof (parse_interval_total_sec s H1 H2 H3) as P. split; [exact P|].
  unfold interval_new. destruct (parse_interval s) as [[[mo d] us]| |]; cbn [rbind is_panic] in *; congruence.
Qed.

Example parse_interval_total_ex :
  let s := lit "99999999-11 year  TO month" in
  frac_nonascii s = false /\ long_number s = false /\ to_is_last s = false
  /\ parse_interval s = ROk (1199999999, 0, 0).
Proof. repeat split; reflexivity. Qed.

Example parse_interval_total_ex2 :
  let s := lit "99999999:99999999:99999999.999999 HOUR TO SECOND" in
  frac_nonascii s = false /\ long_number s = false /\ to_is_last s = false
  /\ parse_interval s = ROk (0, 0, 366099996339999999).
Proof. repeat split; reflexivity. Qed.

(** each side condition is needed: one panicking input per class, outside the other classes *)
Theorem parse_interval_total_refuted_frac_thm :
  exists s, frac_nonascii s = true /\ long_number s = false /\ to_is_last s = false
            /\ parse_interval s = RPanic PSlice.
Proof. exists (lit "1.a" ++ [233; 233; 233; 233; 233] ++ lit " SECOND"). repeat split; reflexivity. Qed.

Theorem parse_interval_total_refuted_overflow_thm :
  exists s1 s2 s3 s4,
    (frac_nonascii s1 = false /\ long_number s1 = true /\ to_is_last s1 = false /\ parse_interval s1 = RPanic POverflow)
    /\ (long_number s2 = true /\ parse_interval s2 = RPanic POverflow)
    /\ (long_number s3 = true /\ parse_interval s3 = RPanic POverflow)
    /\ (long_number s4 = true /\ parse_interval s4 = RPanic POverflow).
Proof.
  exists (lit "200000000 YEAR"), (lit "178956970-8 YEAR TO MONTH"), (lit "2562047789 HOUR"),
         (lit "9223372036854.775808 SECOND").
  repeat split; reflexivity.
Qed.

Theorem parse_interval_total_refuted_to_thm :
  exists s, frac_nonascii s = false /\ long_number s = false /\ to_is_last s = true
            /\ parse_interval s = RPanic PIndex.
Proof. exists (lit "1 YEAR TO"). repeat split; reflexivity. Qed.

(** [Interval::from_str] is [Ok(Interval::new(..))]: it never returns [Err] *)
Lemma slice_not_err n x : slice_to n x <> RErr /\ slice_from n x <> RErr.
Proof. unfold slice_to, slice_from. destruct (bslice_to n x), (bslice_from n x); split; discriminate. Qed.

Definition not_err {A} (r : res A) : bool := match r with RErr => false | _ => true end.

Lemma rbind_ne {A B} (r : res A) (f : A -> res B) :
  not_err r = true -> (forall a, not_err (f a) = true) -> not_err (rbind r f) = true.
Proof. intros Hr Hf. destruct r; cbn [rbind not_err] in *; [apply Hf | discriminate | reflexivity]. Qed.
Lemma slice_to_ne n x : not_err (slice_to n x) = true.
Proof. unfold slice_to. destruct (bslice_to n x); reflexivity. Qed.
Lemma slice_from_ne n x : not_err (slice_from n x) = true.
Proof. unfold slice_from. destruct (bslice_from n x); reflexivity. Qed.
Lemma chk_ne lo hi r : not_err (chk lo hi r) = true.
Proof. unfold chk. destruct ((lo <=? r) && (r <=? hi)); reflexivity. Qed.

Ltac ne_step :=
  first [ reflexivity
        | apply slice_to_ne | apply slice_from_ne | apply chk_ne
        | apply rbind_ne; [|intros] ].

Lemma parse_seconds_us_ne x : not_err (parse_seconds_us x) = true.
Proof.
  unfold parse_seconds_us, mul64, add64. destruct (find_b (Z.eqb 46) x); repeat ne_step.
Qed.

Lemma parse_time_us_ne x : not_err (parse_time_us x) = true.
Proof.
  unfold parse_time_us, mul64, add64.
  destruct (split_on 58 x) as [|p0 [|p1 [|p2 rest]]];
    repeat first [ apply parse_seconds_us_ne | ne_step
                 | match goal with |- context [match parse_i64 ?p with _ => _ end] => destruct (parse_i64 p) end ].
Qed.

Lemma interval_simple_ne v u : not_err (interval_simple v u) = true.
Proof.
  unfold interval_simple, mul32, mul64.
  repeat match goal with |- context [if ?c then _ else _] => destruct c end;
    repeat first [ apply parse_seconds_us_ne | ne_step ].
Qed.

Lemma interval_compound_ne parts k : not_err (interval_compound parts k) = true.
Proof.
  unfold interval_compound, mul32, add32.
  apply rbind_ne; [destruct (nth_error parts (k + 1)); reflexivity | intros u].
  repeat match goal with |- context [if ?c then _ else _] => destruct c end;
    repeat first [ apply parse_time_us_ne | ne_step
                 | match goal with |- context [match find_b ?p ?x with _ => _ end] => destruct (find_b p x) end ].
Qed.

(** [Interval::from_str] never returns [Err] (it is [Ok(Interval::new(s))]) *)
Theorem interval_new_never_err_thm s : interval_new s <> RErr.
Proof.
  assert (H : not_err (parse_interval s) = true).
  { unfold parse_interval. destruct (split_ws s) as [|p0 ps]; [reflexivity|].
    destruct (position _ (p0 :: ps)) as [k|].
    - destruct (2 <=? k)%nat; [apply interval_compound_ne | reflexivity].
    - destruct ps; [reflexivity | apply interval_simple_ne]. }
  unfold interval_new. destruct (parse_interval s) as [[[mo d] us]| |]; cbn [rbind not_err] in *; congruence.
Qed.

(** the DAY arm's [value_part.find(' ')] never finds anything: a whitespace-split word has no ' ' *)
Lemma split_ws_no_space s n : find_b (Z.eqb 32) (nth n (split_ws s) []) = None.
Proof.
  apply find_b_none. destruct (nth_in_or_default n (split_ws s) []) as [H | ->]; [|reflexivity].
  unfold split_ws in H. apply filter_In in H as [H _]. apply split_by_none_in in H.
  apply (none_of_forallb (fun c => negb (is_ws c)) (Z.eqb 32)); [|exact H].
  intros c Hc. destruct (Z.eqb_spec 32 c) as [<-|]; [discriminate Hc | reflexivity].
Qed.
