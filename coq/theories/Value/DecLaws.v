(** Laws of the decimal printer / parser of Value/Dec.v: [parse (print n) = n] with and without
    zero padding, printed numbers consist of digits only, and magnitude bounds for parsed
    numbers in terms of the length of the text. *)
From Coq Require Import List ZArith Bool Lia.
From VibeSQL Require Import Value.Dec.
Import ListNotations.
Open Scope Z_scope.

Lemma is_digit_range c : is_digit c = true <-> 48 <= c <= 57.
Proof. unfold is_digit. rewrite andb_true_iff, !Z.leb_le. tauto. Qed.

(** ** [digits_val] *)
Lemma digits_val_app acc a b :
  digits_val acc (a ++ b) = match digits_val acc a with Some v => digits_val v b | None => None end.
Proof.
  revert acc; induction a as [|c a IH]; intros acc; cbn [app digits_val]; [reflexivity|].
  destruct (is_digit c); [apply IH | reflexivity].
Qed.

Lemma digits_val_zeros k : digits_val 0 (repeat 48 k) = Some 0.
Proof. induction k as [|k IH]; cbn [repeat digits_val]; [reflexivity | exact IH]. Qed.

Lemma digits_val_pad k s : digits_val 0 (repeat 48 k ++ s) = digits_val 0 s.
Proof. rewrite digits_val_app, digits_val_zeros. reflexivity. Qed.

(** the value read from [ds] starting at [acc] is [acc * 10^|ds| + (something below 10^|ds|)] *)
Lemma digits_val_bound ds : forall acc v, 0 <= acc -> digits_val acc ds = Some v ->
  acc * 10 ^ Z.of_nat (length ds) <= v < (acc + 1) * 10 ^ Z.of_nat (length ds).
Proof.
  induction ds as [|c ds IH]; intros acc v Hacc H.
  - cbn in H. inversion H; subst. cbn [length Z.of_nat]. lia.
  - cbn [digits_val] in H. destruct (is_digit c) eqn:Hc; [|discriminate].
    apply is_digit_range in Hc.
    specialize (IH (acc * 10 + (c - 48)) v ltac:(lia) H).
    cbn [length]. rewrite Nat2Z.inj_succ, Z.pow_succ_r by lia.
    set (P := 10 ^ Z.of_nat (length ds)) in *.
    assert (0 < P) by (apply Z.pow_pos_nonneg; lia).
    nia.
Qed.

Lemma digits_val_digits ds : forall acc v, digits_val acc ds = Some v -> forallb is_digit ds = true.
Proof.
  induction ds as [|c ds IH]; intros acc v H; [reflexivity|].
  cbn [digits_val] in H. cbn [forallb]. destruct (is_digit c); [|discriminate].
  cbn. eapply IH; eassumption.
Qed.

Lemma digits_val_some ds : forall acc, forallb is_digit ds = true -> exists v, digits_val acc ds = Some v.
Proof.
  induction ds as [|c ds IH]; intros acc H; cbn [digits_val]; [eexists; reflexivity|].
  cbn [forallb] in H. apply andb_true_iff in H as [Hc Hr]. rewrite Hc. apply IH, Hr.
Qed.

(** ** printing *)
Lemma digits_rev_digits fuel : forall n, 0 <= n -> forallb is_digit (digits_rev fuel n) = true.
Proof.
  induction fuel as [|f IH]; intros n Hn; [reflexivity|].
  cbn [digits_rev forallb].
  assert (Hm := Z.mod_pos_bound n 10 ltac:(lia)).
  replace (is_digit (48 + n mod 10)) with true by (symmetry; apply is_digit_range; lia).
  destruct (n <? 10); [reflexivity|]. apply IH. apply Z.div_pos; lia.
Qed.

Lemma digits_rev_val fuel : forall n, 0 <= n < 10 ^ Z.of_nat fuel ->
  digits_val 0 (rev (digits_rev fuel n)) = Some n.
Proof.
  induction fuel as [|f IH]; intros n Hn.
  - cbn in Hn. assert (n = 0) by lia. subst. reflexivity.
  - cbn [digits_rev rev]. rewrite digits_val_app.
    assert (Hm := Z.mod_pos_bound n 10 ltac:(lia)).
    assert (Hd : is_digit (48 + n mod 10) = true) by (apply is_digit_range; lia).
    destruct (Z.ltb_spec n 10) as [Hlt|Hge].
    + cbn [rev digits_val]. rewrite Hd. rewrite Z.mod_small by lia. f_equal. lia.
    + rewrite IH.
      * cbn [digits_val]. rewrite Hd. f_equal.
        pose proof (Z.div_mod n 10 ltac:(lia)). lia.
      * rewrite Nat2Z.inj_succ, Z.pow_succ_r in Hn by lia.
        split; [apply Z.div_pos; lia | apply Z.div_lt_upper_bound; lia].
Qed.

Lemma digits_rev_nonempty fuel n : fuel <> O -> digits_rev fuel n <> [].
Proof. destruct fuel; [congruence | intros _; cbn [digits_rev]; discriminate]. Qed.

(** a number below [10^k] ([k >= 1]) prints with at most [k] digits *)
Lemma digits_rev_length fuel : forall n k, 0 <= n < 10 ^ Z.of_nat k -> (1 <= k)%nat ->
  (length (digits_rev fuel n) <= k)%nat.
Proof.
  induction fuel as [|f IH]; intros n k Hn Hk; [cbn; lia|].
  cbn [digits_rev length]. destruct (Z.ltb_spec n 10) as [Hlt|Hge]; [cbn; lia|].
  destruct k as [|k]; [lia|]. destruct k as [|k].
  - cbn in Hn. lia.
  - apply le_n_S. apply IH; [|lia].
    rewrite Nat2Z.inj_succ, Z.pow_succ_r in Hn by lia.
    split; [apply Z.div_pos; lia | apply Z.div_lt_upper_bound; lia].
Qed.

Lemma pow10_20 : 10 ^ Z.of_nat 20 = 100000000000000000000.
Proof. reflexivity. Qed.

Lemma show_nat_digits n : 0 <= n -> forallb is_digit (show_nat n) = true.
Proof.
  intros Hn. unfold show_nat. rewrite forallb_forall. intros x Hx. apply in_rev in Hx.
  pose proof (digits_rev_digits 20 n Hn) as H. rewrite forallb_forall in H. apply H, Hx.
Qed.

Lemma show_nat_val n : 0 <= n < 100000000000000000000 -> digits_val 0 (show_nat n) = Some n.
Proof. intros Hn. unfold show_nat. apply digits_rev_val. rewrite pow10_20. exact Hn. Qed.

Lemma show_nat_nonempty n : show_nat n <> [].
Proof.
  unfold show_nat. intros H. apply (f_equal (@rev Z)) in H. rewrite rev_involutive in H.
  cbn [rev] in H. revert H. apply digits_rev_nonempty. discriminate.
Qed.

Lemma show_nat_length n k : 0 <= n < 10 ^ Z.of_nat k -> (1 <= k)%nat -> (length (show_nat n) <= k)%nat.
Proof. intros Hn Hk. unfold show_nat. rewrite rev_length. apply digits_rev_length; assumption. Qed.

Lemma repeat_digits k : forallb is_digit (repeat 48 k) = true.
Proof. induction k as [|k IH]; [reflexivity | cbn [repeat forallb]; rewrite IH; reflexivity]. Qed.

Lemma pad_left_digits w s : forallb is_digit s = true -> forallb is_digit (pad_left w s) = true.
Proof. intros H. unfold pad_left. rewrite forallb_app, repeat_digits, H. reflexivity. Qed.

Lemma pad_left_length w s : (w <= length (pad_left w s))%nat.
Proof. unfold pad_left. rewrite app_length, repeat_length. lia. Qed.

Lemma pad_left_length_exact w s : (length s <= w)%nat -> length (pad_left w s) = w.
Proof. intros H. unfold pad_left. rewrite app_length, repeat_length. lia. Qed.

Lemma pad_left_nonempty w s : s <> [] -> pad_left w s <> [].
Proof. unfold pad_left. intros H E. apply app_eq_nil in E as [_ E]. contradiction. Qed.

Lemma pad_left_val w s : digits_val 0 (pad_left w s) = digits_val 0 s.
Proof. unfold pad_left. apply digits_val_pad. Qed.

Lemma show_int_w_nonneg w z : 0 <= z -> show_int_w w z = pad_left w (show_nat z).
Proof. intros H. unfold show_int_w. destruct (Z.ltb_spec z 0); [lia | reflexivity]. Qed.

Lemma show_int_w_digits w z : 0 <= z -> forallb is_digit (show_int_w w z) = true.
Proof. intros H. rewrite show_int_w_nonneg by assumption. apply pad_left_digits, show_nat_digits, H. Qed.

Lemma show_int_w_nonempty w z : 0 <= z -> show_int_w w z <> [].
Proof. intros H. rewrite show_int_w_nonneg by assumption. apply pad_left_nonempty, show_nat_nonempty. Qed.

Lemma show_int_w_length w z : 0 <= z -> (w <= length (show_int_w w z))%nat.
Proof. intros H. rewrite show_int_w_nonneg by assumption. apply pad_left_length. Qed.

(** ** parsing *)

(** a non-empty all-digit text is read by the unsigned path, whatever the type *)
Lemma parse_int_digits sg lo hi s :
  s <> [] -> forallb is_digit s = true ->
  parse_int sg lo hi s = match digits_val 0 s with Some v => in_range lo hi v | None => None end.
Proof.
  intros Hne Hd. destruct s as [|c r]; [congruence|].
  cbn [forallb] in Hd. apply andb_true_iff in Hd as [Hc _]. apply is_digit_range in Hc.
  unfold parse_int.
  assert (E1 : (c =? 43) = false) by (apply Z.eqb_neq; lia).
  assert (E2 : (c =? 45) = false) by (apply Z.eqb_neq; lia).
  rewrite E1, E2. cbn [orb andb]. destruct r; reflexivity.
Qed.

(** THE decimal round trip: the zero-padded print of [n] parses back to [n] in every integer
    type whose range contains [n] *)
Theorem parse_show_int sg lo hi w n :
  0 <= n < 100000000000000000000 -> lo <= n <= hi ->
  parse_int sg lo hi (show_int_w w n) = Some n.
Proof.
  intros Hn Hr. rewrite parse_int_digits.
  - rewrite show_int_w_nonneg, pad_left_val, show_nat_val by lia.
    unfold in_range. replace ((lo <=? n) && (n <=? hi)) with true; [reflexivity|].
    symmetry. apply andb_true_iff. rewrite !Z.leb_le. lia.
  - apply show_int_w_nonempty; lia.
  - apply show_int_w_digits; lia.
Qed.

Example parse_show_int_ex : parse_i32 (show_int_w 4 2024) = Some 2024 /\ parse_u8 (show_int_w 2 7) = Some 7.
Proof. split; reflexivity. Qed.

(** negative numbers print with a leading '-' (sign-aware zero padding) and signed types read
    them back; unsigned types reject them *)
Lemma parse_show_neg lo hi w n :
  0 < n < 100000000000000000000 -> lo <= - n <= hi ->
  parse_int true lo hi (show_int_w w (- n)) = Some (- n).
Proof.
  intros Hn Hr. unfold show_int_w. destruct (Z.ltb_spec (- n) 0) as [_|]; [|lia].
  rewrite Z.opp_involutive. unfold parse_int.
  destruct (pad_left (w - 1) (show_nat n)) eqn:E.
  - exfalso. revert E. apply pad_left_nonempty, show_nat_nonempty.
  - cbn [Z.eqb andb orb]. rewrite <- E, pad_left_val, show_nat_val by lia.
    unfold in_range. replace ((lo <=? - n) && (- n <=? hi)) with true; [reflexivity|].
    symmetry. apply andb_true_iff. rewrite !Z.leb_le. lia.
Qed.

(** the result of a successful parse: the text is an optional sign followed by digits only, and
    the magnitude is below [10 ^ (number of digits)] *)
Lemma parse_int_inv sg lo hi s v :
  parse_int sg lo hi s = Some v ->
  exists ds, (s = ds \/ s = 43 :: ds \/ s = 45 :: ds) /\ ds <> [] /\ forallb is_digit ds = true
             /\ Z.abs v < 10 ^ Z.of_nat (length ds) /\ lo <= v <= hi.
Proof.
  unfold parse_int. intros H.
  assert (R : forall x y, in_range lo hi x = Some y -> y = x /\ lo <= y <= hi).
  { unfold in_range. intros x y E. destruct ((lo <=? x) && (x <=? hi)) eqn:B; [|discriminate].
    inversion E; subst. apply andb_true_iff in B. rewrite !Z.leb_le in B. lia. }
  assert (D : forall ds x, digits_val 0 ds = Some x -> forallb is_digit ds = true /\ 0 <= x < 10 ^ Z.of_nat (length ds)).
  { intros ds x E. split; [eapply digits_val_digits; eassumption|].
    pose proof (digits_val_bound ds 0 x ltac:(lia) E). lia. }
  destruct s as [|c r]; [discriminate|].
  destruct r as [|c2 r].
  - destruct ((c =? 43) || (c =? 45)); [discriminate|].
    destruct (digits_val 0 [c]) as [x|] eqn:E; [|discriminate].
    apply R in H as [-> Hr]. apply D in E as [Hd Hb].
    exists [c]. repeat split; try tauto; try discriminate; try lia.
  - destruct (Z.eqb_spec c 43) as [->|N43].
    + destruct (digits_val 0 (c2 :: r)) as [x|] eqn:E; [|discriminate].
      apply R in H as [-> Hr]. apply D in E as [Hd Hb].
      exists (c2 :: r). repeat split; try tauto; try discriminate; try lia.
    + destruct ((c =? 45) && sg) eqn:B.
      * apply andb_true_iff in B as [B _]. apply Z.eqb_eq in B. subst c.
        destruct (digits_val 0 (c2 :: r)) as [x|] eqn:E; [|discriminate].
        apply R in H as [-> Hr]. apply D in E as [Hd Hb].
        exists (c2 :: r). repeat split; try tauto; try discriminate; try lia.
      * destruct (digits_val 0 (c :: c2 :: r)) as [x|] eqn:E; [|discriminate].
        apply R in H as [-> Hr]. apply D in E as [Hd Hb].
        exists (c :: c2 :: r). repeat split; try tauto; try discriminate; try lia.
Qed.

(** a text of [n] characters parses to a magnitude below [10^n] *)
Lemma parse_int_abs_bound sg lo hi s v :
  parse_int sg lo hi s = Some v -> Z.abs v < 10 ^ Z.of_nat (length s).
Proof.
  intros H. apply parse_int_inv in H as (ds & Hs & _ & _ & Hb & _).
  assert (L : (length ds <= length s)%nat) by (destruct Hs as [->|[->| ->]]; cbn [length]; lia).
  eapply Z.lt_le_trans; [exact Hb|]. apply Z.pow_le_mono_r; lia.
Qed.

Example parse_int_inv_ex : parse_i64 [45; 49; 50] = Some (-12).
Proof. reflexivity. Qed.
