(** Laws of the [&str] model of Value/RStr.v: byte slices at positions returned by [find]/[rfind]
    never panic, slices of ASCII text never panic, [split]/[trim]/slices return infixes of their
    argument, and the side-condition vocabulary ([after_first], [after_last], [max_run],
    [all_ascii]) is monotone under taking infixes. *)
From Coq Require Import List ZArith Bool Lia.
From VibeSQL Require Import Value.Dec Value.DecLaws Value.RStr.
Import ListNotations.
Open Scope Z_scope.

(** no character of [s] satisfies [p] *)
Definition none (p : Z -> bool) (s : str) : bool := forallb (fun c => negb (p c)) s.

Lemma none_app p a b : none p (a ++ b) = none p a && none p b.
Proof. apply forallb_app. Qed.
Lemma none_cons p c s : none p (c :: s) = negb (p c) && none p s.
Proof. reflexivity. Qed.
Lemma none_in p s c : none p s = true -> In c s -> p c = false.
Proof. unfold none. rewrite forallb_forall. intros H Hin. apply H in Hin. apply negb_true_iff, Hin. Qed.
Lemma none_rev p s : none p (rev s) = none p s.
Proof.
  induction s as [|c s IH]; [reflexivity|]. cbn [rev]. rewrite none_app, IH, none_cons.
  cbn [none forallb]. rewrite andb_true_r. apply andb_comm.
Qed.

(** a predicate that holds only for characters outside [s] *)
Lemma none_of_forallb (q p : Z -> bool) s :
  (forall c, q c = true -> p c = false) -> forallb q s = true -> none p s = true.
Proof.
  intros H Hq. unfold none. rewrite forallb_forall in *. intros c Hc.
  apply negb_true_iff, H, Hq, Hc.
Qed.

(** ** UTF-8 geometry *)
Lemma width_range c : 1 <= width c <= 4.
Proof. unfold width. destruct (c <? 128), (c <? 2048), (c <? 65536); lia. Qed.

Lemma width_ascii c : c < 128 -> width c = 1.
Proof. intros H. unfold width. destruct (Z.ltb_spec c 128); [reflexivity | lia]. Qed.

Lemma blen_nonneg s : 0 <= blen s.
Proof. induction s as [|c s IH]; cbn [blen]; [lia | pose proof (width_range c); lia]. Qed.

Lemma blen_app a b : blen (a ++ b) = blen a + blen b.
Proof. induction a as [|c a IH]; cbn [app blen]; lia. Qed.

Lemma blen_length_le s : Z.of_nat (length s) <= blen s.
Proof. induction s as [|c s IH]; cbn [blen length]; [lia | pose proof (width_range c); lia]. Qed.

Lemma all_ascii_app a b : all_ascii (a ++ b) = all_ascii a && all_ascii b.
Proof. apply forallb_app. Qed.

Lemma blen_ascii s : all_ascii s = true -> blen s = Z.of_nat (length s).
Proof.
  induction s as [|c s IH]; intros H; [reflexivity|].
  cbn [all_ascii forallb] in H. apply andb_true_iff in H as [Hc Hs]. apply Z.ltb_lt in Hc.
  cbn [blen length]. rewrite width_ascii, IH by assumption. lia.
Qed.

Lemma digits_ascii s : forallb is_digit s = true -> all_ascii s = true.
Proof.
  unfold all_ascii. rewrite !forallb_forall. intros H c Hc. apply H, is_digit_range in Hc.
  apply Z.ltb_lt. lia.
Qed.

Lemma repeat_ascii c k : c < 128 -> all_ascii (repeat c k) = true.
Proof.
  intros H. induction k as [|k IH]; [reflexivity|]. cbn [repeat all_ascii forallb].
  fold (all_ascii (repeat c k)). rewrite IH. replace (c <? 128) with true; [reflexivity|].
  symmetry. apply Z.ltb_lt, H.
Qed.

(** ** byte slices *)
Lemma bslice_to_app a b : bslice_to (blen a) (a ++ b) = Some a.
Proof.
  induction a as [|c a IH]; cbn [app blen].
  - destruct b; reflexivity.
  - cbn [bslice_to]. pose proof (width_range c). pose proof (blen_nonneg a).
    replace (width c + blen a =? 0) with false by (symmetry; apply Z.eqb_neq; lia).
    replace (width c + blen a <? width c) with false by (symmetry; apply Z.ltb_ge; lia).
    replace (width c + blen a - width c) with (blen a) by lia. rewrite IH. reflexivity.
Qed.

Lemma bslice_from_app a b : bslice_from (blen a) (a ++ b) = Some b.
Proof.
  induction a as [|c a IH]; cbn [app blen].
  - destruct b; reflexivity.
  - cbn [bslice_from]. pose proof (width_range c). pose proof (blen_nonneg a).
    replace (width c + blen a =? 0) with false by (symmetry; apply Z.eqb_neq; lia).
    replace (width c + blen a <? width c) with false by (symmetry; apply Z.ltb_ge; lia).
    replace (width c + blen a - width c) with (blen a) by lia. exact IH.
Qed.

Lemma bslice_to_inv s : forall n p, bslice_to n s = Some p -> exists q, s = p ++ q /\ n = blen p.
Proof.
  induction s as [|c s IH]; intros n p H; cbn [bslice_to] in H.
  - destruct (Z.eqb_spec n 0); [|discriminate]. inversion H; subst. exists []. split; reflexivity.
  - destruct (Z.eqb_spec n 0).
    + inversion H; subst. exists (c :: s). split; reflexivity.
    + destruct (n <? width c); [discriminate|].
      destruct (bslice_to (n - width c) s) as [p'|] eqn:E; [|discriminate].
      inversion H; subst. apply IH in E as (q & -> & Hn). exists q. split; [reflexivity|].
      cbn [blen]. lia.
Qed.

Lemma bslice_from_inv s : forall n q, bslice_from n s = Some q -> exists p, s = p ++ q /\ n = blen p.
Proof.
  induction s as [|c s IH]; intros n q H; cbn [bslice_from] in H.
  - destruct (Z.eqb_spec n 0); [|discriminate]. inversion H; subst. exists []. split; reflexivity.
  - destruct (Z.eqb_spec n 0).
    + inversion H; subst. exists []. split; reflexivity.
    + destruct (n <? width c); [discriminate|].
      apply IH in H as (p & -> & Hn). exists (c :: p). split; [reflexivity|].
      cbn [blen]. lia.
Qed.

(** an in-range slice of ASCII text never panics *)
Lemma bslice_to_ascii s : forall n, all_ascii s = true -> 0 <= n <= blen s ->
  exists p, bslice_to n s = Some p /\ length p = Z.to_nat n.
Proof.
  induction s as [|c s IH]; intros n Ha Hn; cbn [blen] in Hn; cbn [bslice_to].
  - assert (n = 0) by lia. subst. exists []. split; reflexivity.
  - cbn [all_ascii forallb] in Ha. apply andb_true_iff in Ha as [Hc Hs]. apply Z.ltb_lt in Hc.
    rewrite width_ascii in * by assumption.
    destruct (Z.eqb_spec n 0) as [->|Hne]; [exists []; split; reflexivity|].
    replace (n <? 1) with false by (symmetry; apply Z.ltb_ge; lia).
    destruct (IH (n - 1) Hs ltac:(lia)) as (p & -> & Hl).
    exists (c :: p). split; [reflexivity|]. cbn [length]. rewrite Hl. lia.
Qed.

Lemma bslice_from_ascii s : forall n, all_ascii s = true -> 0 <= n <= blen s ->
  exists q, bslice_from n s = Some q.
Proof.
  induction s as [|c s IH]; intros n Ha Hn; cbn [blen] in Hn; cbn [bslice_from].
  - assert (n = 0) by lia. subst. exists []. reflexivity.
  - cbn [all_ascii forallb] in Ha. apply andb_true_iff in Ha as [Hc Hs]. apply Z.ltb_lt in Hc.
    rewrite width_ascii in * by assumption.
    destruct (Z.eqb_spec n 0) as [->|Hne]; [eexists; reflexivity|].
    replace (n <? 1) with false by (symmetry; apply Z.ltb_ge; lia).
    apply IH; [assumption | lia].
Qed.

(** ** find / rfind *)
Lemma find_b_app p a d b : none p a = true -> p d = true -> find_b p (a ++ d :: b) = Some (blen a).
Proof.
  intros Ha Hd. induction a as [|c a IH]; cbn [app find_b blen].
  - rewrite Hd. reflexivity.
  - rewrite none_cons in Ha. apply andb_true_iff in Ha as [Hc Ha]. apply negb_true_iff in Hc.
    rewrite Hc, IH by assumption. reflexivity.
Qed.

Lemma find_b_none p s : none p s = true -> find_b p s = None.
Proof.
  induction s as [|c s IH]; intros H; [reflexivity|].
  rewrite none_cons in H. apply andb_true_iff in H as [Hc Hs]. apply negb_true_iff in Hc.
  cbn [find_b]. rewrite Hc, IH by assumption. reflexivity.
Qed.

Lemma find_b_inv p s : forall k, find_b p s = Some k ->
  exists a d b, s = a ++ d :: b /\ k = blen a /\ p d = true /\ none p a = true.
Proof.
  induction s as [|c s IH]; intros k H; [discriminate|]. cbn [find_b] in H.
  destruct (p c) eqn:Hc.
  - inversion H; subst. exists [], c, s. repeat split; assumption.
  - destruct (find_b p s) as [k'|] eqn:E; [|discriminate]. inversion H; subst.
    destruct (IH k' eq_refl) as (a & d & b & -> & -> & Hd & Ha).
    exists (c :: a), d, b. repeat split; [assumption|]. rewrite none_cons, Hc, Ha. reflexivity.
Qed.

Lemma find_b_none_inv p s : find_b p s = None -> none p s = true.
Proof.
  induction s as [|c s IH]; intros H; [reflexivity|]. cbn [find_b] in H.
  destruct (p c) eqn:Hc; [discriminate|].
  destruct (find_b p s); [discriminate|]. rewrite none_cons, Hc, IH; reflexivity.
Qed.

Lemma rfind_b_none p s : none p s = true -> rfind_b p s = None.
Proof.
  induction s as [|c s IH]; intros H; [reflexivity|].
  rewrite none_cons in H. apply andb_true_iff in H as [Hc Hs]. apply negb_true_iff in Hc.
  cbn [rfind_b]. rewrite IH, Hc by assumption. reflexivity.
Qed.

Lemma rfind_b_app p a d b : none p b = true -> p d = true -> rfind_b p (a ++ d :: b) = Some (blen a).
Proof.
  intros Hb Hd. induction a as [|c a IH]; cbn [app rfind_b blen].
  - rewrite rfind_b_none, Hd by assumption. reflexivity.
  - rewrite IH. reflexivity.
Qed.

Lemma rfind_b_inv p s : forall k, rfind_b p s = Some k ->
  exists a d b, s = a ++ d :: b /\ k = blen a /\ p d = true /\ none p b = true.
Proof.
  induction s as [|c s IH]; intros k H; [discriminate|]. cbn [rfind_b] in H.
  destruct (rfind_b p s) as [k'|] eqn:E.
  - inversion H; subst. destruct (IH k' eq_refl) as (a & d & b & -> & -> & Hd & Hb).
    exists (c :: a), d, b. repeat split; assumption.
  - destruct (p c) eqn:Hc; [|discriminate]. inversion H; subst.
    exists [], c, s. repeat split; try assumption.
    clear -E. induction s as [|x s IH]; [reflexivity|]. cbn [rfind_b] in E.
    destruct (rfind_b p s); [discriminate|]. destruct (p x) eqn:Hx; [discriminate|].
    rewrite none_cons, Hx, IH; reflexivity.
Qed.

(** slices at a position found for a one-byte delimiter: [&s[..pos]], [&s[pos..]], [&s[pos+1..]] *)
Lemma slices_at a d b : width d = 1 ->
  slice_to (blen a) (a ++ d :: b) = ROk a
  /\ slice_from (blen a) (a ++ d :: b) = ROk (d :: b)
  /\ slice_from (blen a + 1) (a ++ d :: b) = ROk b.
Proof.
  intros Hw. unfold slice_to, slice_from. rewrite bslice_to_app, bslice_from_app.
  repeat split.
  replace (a ++ d :: b) with ((a ++ [d]) ++ b) by (rewrite <- app_assoc; reflexivity).
  replace (blen a + 1) with (blen (a ++ [d])) by (rewrite blen_app; cbn [blen]; lia).
  rewrite bslice_from_app. reflexivity.
Qed.

(** ** split *)
Lemma split_by_nonempty p s : split_by p s <> [].
Proof. destruct s as [|c s]; cbn [split_by]; [discriminate|]. destruct (p c); [discriminate|]. destruct (split_by p s); discriminate. Qed.

Lemma split_by_none p a : none p a = true -> split_by p a = [a].
Proof.
  induction a as [|c a IH]; intros H; [reflexivity|].
  rewrite none_cons in H. apply andb_true_iff in H as [Hc Ha]. apply negb_true_iff in Hc.
  cbn [split_by]. rewrite Hc, IH by assumption. reflexivity.
Qed.

Lemma split_by_app p a d b : none p a = true -> p d = true ->
  split_by p (a ++ d :: b) = a :: split_by p b.
Proof.
  intros Ha Hd. induction a as [|c a IH]; cbn [app split_by].
  - rewrite Hd. reflexivity.
  - rewrite none_cons in Ha. apply andb_true_iff in Ha as [Hc Ha]. apply negb_true_iff in Hc.
    rewrite Hc, IH by assumption. reflexivity.
Qed.

(** ** infixes *)
Definition infix (x s : str) : Prop := exists a b, s = a ++ x ++ b.

Lemma infix_refl s : infix s s.
Proof. exists [], []. rewrite app_nil_r. reflexivity. Qed.
Lemma infix_trans x y z : infix x y -> infix y z -> infix x z.
Proof.
  intros (a & b & ->) (c & d & ->). exists (c ++ a), (b ++ d). rewrite !app_assoc. reflexivity.
Qed.
Lemma infix_prefix a b : infix a (a ++ b).
Proof. exists [], b. reflexivity. Qed.
Lemma infix_suffix a b : infix b (a ++ b).
Proof. exists a, []. rewrite app_nil_r. reflexivity. Qed.
Lemma infix_cons c x s : infix x s -> infix x (c :: s).
Proof. intros (a & b & ->). exists (c :: a), b. reflexivity. Qed.
Lemma infix_nil s : infix [] s.
Proof. exists [], s. reflexivity. Qed.
Lemma infix_app_l x a s : infix x s -> infix x (a ++ s).
Proof. intros (u & v & ->). exists (a ++ u), v. rewrite app_assoc. reflexivity. Qed.
Lemma infix_app_r x s b : infix x s -> infix x (s ++ b).
Proof. intros (u & v & ->). exists u, (v ++ b). rewrite <- !app_assoc. reflexivity. Qed.

Lemma all_ascii_infix x s : infix x s -> all_ascii s = true -> all_ascii x = true.
Proof.
  intros (a & b & ->). rewrite !all_ascii_app. intros H.
  apply andb_true_iff in H as [_ H]. apply andb_true_iff in H as [H _]. exact H.
Qed.

Lemma none_infix p x s : infix x s -> none p s = true -> none p x = true.
Proof.
  intros (a & b & ->). rewrite !none_app. intros H.
  apply andb_true_iff in H as [_ H]. apply andb_true_iff in H as [H _]. exact H.
Qed.

Lemma split_by_first_prefix p s : forall y ys, split_by p s = y :: ys -> exists b, s = y ++ b.
Proof.
  induction s as [|d s IHs]; intros y ys E; cbn [split_by] in E.
  - inversion E; subst. exists []. reflexivity.
  - destruct (p d).
    + inversion E; subst. exists (d :: s). reflexivity.
    + destruct (split_by p s) as [|z zs] eqn:E2.
      * inversion E; subst. exists s. reflexivity.
      * destruct (IHs z zs eq_refl) as (b & Hb). inversion E; subst. exists b. reflexivity.
Qed.

Lemma split_by_infix p s : forall x, In x (split_by p s) -> infix x s.
Proof.
  induction s as [|c s IH]; intros x Hx; cbn [split_by] in Hx.
  - destruct Hx as [<-|[]]. apply infix_refl.
  - destruct (p c).
    + destruct Hx as [<-|Hx]; [apply infix_nil | apply infix_cons, IH, Hx].
    + destruct (split_by p s) as [|y ys] eqn:E.
      * destruct Hx as [<-|[]]. exists [], s. reflexivity.
      * destruct Hx as [<-|Hx].
        -- destruct (split_by_first_prefix p s y ys E) as (b & ->). exists [], b. reflexivity.
        -- apply infix_cons, IH. right. exact Hx.
Qed.

Lemma split_ws_infix s x : In x (split_ws s) -> infix x s.
Proof. unfold split_ws. intros H. apply filter_In in H as [H _]. apply split_by_infix in H. exact H. Qed.

(** no piece of a split contains a delimiter *)
Lemma split_by_none_in p s : forall x, In x (split_by p s) -> none p x = true.
Proof.
  induction s as [|c s IH]; intros x Hx; cbn [split_by] in Hx.
  - destruct Hx as [<-|[]]. reflexivity.
  - destruct (p c) eqn:Hc.
    + destruct Hx as [<-|Hx]; [reflexivity | apply IH, Hx].
    + destruct (split_by p s) as [|y ys] eqn:E.
      * destruct Hx as [<-|[]]. rewrite none_cons, Hc. reflexivity.
      * destruct Hx as [<-|Hx].
        -- rewrite none_cons, Hc. cbn [negb andb]. apply IH. left; reflexivity.
        -- apply IH. right; exact Hx.
Qed.

(** ** trim *)
Lemma drop_while_split p s : exists a, s = a ++ drop_while p s /\ forallb p a = true.
Proof.
  induction s as [|c s IH]; [exists []; split; reflexivity|]. cbn [drop_while].
  destruct (p c) eqn:Hc.
  - destruct IH as (a & Hs & Ha). exists (c :: a). split; [cbn [app]; congruence|].
    cbn [forallb]. rewrite Hc, Ha. reflexivity.
  - exists []. split; reflexivity.
Qed.

Lemma trim_end_by_split p s : exists z, s = trim_end_by p s ++ z /\ forallb p z = true.
Proof.
  unfold trim_end_by. destruct (drop_while_split p (rev s)) as (a & Hs & Ha).
  exists (rev a). split.
  - rewrite <- rev_app_distr, <- Hs, rev_involutive. reflexivity.
  - rewrite forallb_forall in *. intros x Hx. apply Ha, in_rev, Hx.
Qed.

Lemma trim_split s : exists a z, s = a ++ trim s ++ z /\ forallb is_ws a = true /\ forallb is_ws z = true.
Proof.
  unfold trim. destruct (drop_while_split is_ws s) as (a & Hs & Ha).
  destruct (trim_end_by_split is_ws (drop_while is_ws s)) as (z & Hz & Hzz).
  exists a, z. split; [|split; assumption]. rewrite <- Hz. exact Hs.
Qed.

Lemma trim_infix s : infix (trim s) s.
Proof. destruct (trim_split s) as (a & z & H & _). exists a, z. exact H. Qed.

Lemma drop_while_id p c r : p c = false -> drop_while p (c :: r) = c :: r.
Proof. intros H. cbn [drop_while]. rewrite H. reflexivity. Qed.

Lemma trim_end_by_id p r c : p c = false -> trim_end_by p (r ++ [c]) = r ++ [c].
Proof.
  intros H. unfold trim_end_by. rewrite rev_app_distr. cbn [rev app].
  rewrite drop_while_id by assumption. cbn [rev]. rewrite rev_involutive. reflexivity.
Qed.

(** trimming trailing zeros and padding back to the original width is the identity *)
Lemma drop_while_repeat c s : exists k, s = repeat c k ++ drop_while (Z.eqb c) s.
Proof.
  induction s as [|x s IH]; [exists O; reflexivity|]. cbn [drop_while].
  destruct (Z.eqb_spec c x) as [->|N].
  - destruct IH as (k & Hk). exists (S k). cbn [repeat app]. congruence.
  - exists O. reflexivity.
Qed.

Lemma repeat_rev (c : Z) k : rev (repeat c k) = repeat c k.
Proof.
  induction k as [|k IH]; [reflexivity|]. cbn [repeat rev]. rewrite IH.
  clear IH. induction k as [|k IH]; [reflexivity|]. cbn [repeat app]. rewrite IH. reflexivity.
Qed.

Lemma pad_right_trim w l : length l = w -> pad_right w (trim_end_by (Z.eqb 48) l) = l.
Proof.
  intros Hl. unfold trim_end_by, pad_right.
  destruct (drop_while_repeat 48 (rev l)) as (k & Hk).
  set (r := drop_while (Z.eqb 48) (rev l)) in *.
  assert (E : l = rev r ++ repeat 48 k).
  { rewrite <- (rev_involutive l), Hk, rev_app_distr, repeat_rev. reflexivity. }
  pose proof (f_equal (@length Z) E) as EL. rewrite app_length, repeat_length in EL.
  transitivity (rev r ++ repeat 48 k); [|symmetry; exact E]. f_equal. f_equal. lia.
Qed.

Lemma pad_right_ascii w s : all_ascii s = true -> all_ascii (pad_right w s) = true.
Proof. intros H. unfold pad_right. rewrite all_ascii_app, H, repeat_ascii by lia. reflexivity. Qed.

Lemma pad_right_length w s : (w <= length (pad_right w s))%nat.
Proof. unfold pad_right. rewrite app_length, repeat_length. lia. Qed.

(** ** after_first / after_last *)
Lemma after_first_app p a d b : none p a = true -> p d = true -> after_first p (a ++ d :: b) = Some b.
Proof.
  intros Ha Hd. induction a as [|c a IH]; cbn [app after_first].
  - rewrite Hd. reflexivity.
  - rewrite none_cons in Ha. apply andb_true_iff in Ha as [Hc Ha]. apply negb_true_iff in Hc.
    rewrite Hc. apply IH, Ha.
Qed.

Lemma after_first_none p s : none p s = true -> after_first p s = None.
Proof.
  induction s as [|c s IH]; intros H; [reflexivity|].
  rewrite none_cons in H. apply andb_true_iff in H as [Hc Hs]. apply negb_true_iff in Hc.
  cbn [after_first]. rewrite Hc. apply IH, Hs.
Qed.

(** the text after the first delimiter of an infix lies inside the text after the first
    delimiter of the whole *)
Lemma after_first_infix p x s f :
  infix x s -> after_first p x = Some f -> exists f', after_first p s = Some f' /\ infix f f'.
Proof.
  intros (a & b & ->) Hx.
  assert (Hxb : after_first p (x ++ b) = Some (f ++ b)).
  { clear a. revert f Hx. induction x as [|c x IH]; intros f Hx; [discriminate|].
    cbn [after_first app] in *. destruct (p c).
    - inversion Hx; subst. reflexivity.
    - apply IH, Hx. }
  induction a as [|c a IH]; cbn [app].
  - exists (f ++ b). split; [exact Hxb | apply infix_prefix].
  - cbn [after_first]. destruct (p c).
    + exists (a ++ x ++ b). split; [reflexivity|].
      apply infix_app_l, infix_app_r.
      clear -Hx. revert f Hx. induction x as [|d x IHx]; intros f Hx; [discriminate|].
      cbn [after_first] in Hx. destruct (p d).
      * inversion Hx; subst. apply infix_cons, infix_refl.
      * apply infix_cons, IHx, Hx.
    + exact IH.
Qed.

Lemma after_last_none p s : none p s = true -> after_last p s = None.
Proof.
  induction s as [|c s IH]; intros H; [reflexivity|].
  rewrite none_cons in H. apply andb_true_iff in H as [Hc Hs]. apply negb_true_iff in Hc.
  cbn [after_last]. rewrite IH, Hc by assumption. reflexivity.
Qed.

Lemma after_last_app p a d b : none p b = true -> p d = true -> after_last p (a ++ d :: b) = Some b.
Proof.
  intros Hb Hd. induction a as [|c a IH]; cbn [app after_last].
  - rewrite after_last_none, Hd by assumption. reflexivity.
  - rewrite IH. reflexivity.
Qed.

(** ** digit runs *)
Lemma run_here_app ds b : forallb is_digit ds = true -> (length ds <= run_here (ds ++ b))%nat.
Proof.
  induction ds as [|c ds IH]; intros H; cbn [length]; [lia|].
  cbn [forallb] in H. apply andb_true_iff in H as [Hc Hd]. cbn [app run_here]. rewrite Hc.
  specialize (IH Hd). lia.
Qed.

Lemma max_run_ge_here s : (run_here s <= max_run s)%nat.
Proof. destruct s; cbn [max_run]; [cbn; lia | lia]. Qed.

(** every all-digit infix is at most as long as the longest digit run *)
Lemma max_run_infix ds s : infix ds s -> forallb is_digit ds = true -> (length ds <= max_run s)%nat.
Proof.
  intros (a & b & ->) Hd. induction a as [|c a IH]; cbn [app].
  - etransitivity; [apply run_here_app, Hd | apply max_run_ge_here].
  - cbn [max_run]. lia.
Qed.

Lemma max_run_mono x s : infix x s -> (max_run x <= max_run s)%nat.
Proof.
  intros (a & b & ->).
  assert (H : (max_run x <= max_run (x ++ b))%nat).
  { induction x as [|c x IH]; [cbn; lia|]. cbn [app max_run].
    assert (run_here (c :: x) <= run_here (c :: x ++ b))%nat.
    { clear. revert c. induction x as [|d x IHx]; intros c; cbn [run_here app].
      - destruct (is_digit c); lia.
      - destruct (is_digit c); [|lia]. specialize (IHx d). cbn [run_here app] in IHx. lia. }
    cbn [app] in *. lia. }
  induction a as [|c a IH]; cbn [app]; [exact H|]. cbn [max_run]. lia.
Qed.

(** ** position *)
Lemma position_inv {A} (p : A -> bool) l : forall k, position p l = Some k ->
  exists x, nth_error l k = Some x /\ p x = true.
Proof.
  induction l as [|y l IH]; intros k H; [discriminate|]. cbn [position] in H.
  destruct (p y) eqn:Hy.
  - inversion H; subst. exists y. split; [reflexivity | exact Hy].
  - destruct (position p l) as [k'|] eqn:E; [|discriminate]. inversion H; subst.
    cbn [nth_error]. apply IH. reflexivity.
Qed.

(** ** str_eqb *)
Lemma str_eqb_eq a b : str_eqb a b = true <-> a = b.
Proof.
  revert b; induction a as [|x a IH]; intros [|y b]; cbn [str_eqb]; try (split; congruence).
  rewrite andb_true_iff, Z.eqb_eq, IH. split; [intros [-> ->]; reflexivity | intros E; inversion E; auto].
Qed.

Lemma str_eqb_refl a : str_eqb a a = true.
Proof. apply str_eqb_eq. reflexivity. Qed.

(** ** ends_with *)
Lemma ends_with_app s c d : ends_with d (s ++ [c]) = (c =? d).
Proof. unfold ends_with. rewrite rev_app_distr. reflexivity. Qed.

Lemma ends_with_inv d s : ends_with d s = true -> exists r, s = r ++ [d].
Proof.
  unfold ends_with. destruct (rev s) as [|x r] eqn:E; [discriminate|]. intros H.
  apply Z.eqb_eq in H. subst x. exists (rev r).
  rewrite <- (rev_involutive s), E. reflexivity.
Qed.

Lemma after_last_inv p s : forall b, after_last p s = Some b ->
  exists a d, s = a ++ d :: b /\ p d = true /\ none p b = true.
Proof.
  induction s as [|c s IH]; intros b H; [discriminate|]. cbn [after_last] in H.
  destruct (after_last p s) as [t|] eqn:E.
  - inversion H; subst. destruct (IH b eq_refl) as (a & d & -> & Hd & Hb).
    exists (c :: a), d. repeat split; assumption.
  - destruct (p c) eqn:Hc; [|discriminate]. inversion H; subst.
    exists [], c. repeat split; try assumption.
    clear -E. induction b as [|x b IH]; [reflexivity|]. cbn [after_last] in E.
    destruct (after_last p b); [discriminate|]. destruct (p x) eqn:Hx; [discriminate|].
    rewrite none_cons, Hx, IH; reflexivity.
Qed.

Lemma nth_error_last {A} (l : list A) k x :
  nth_error l k = Some x -> length l = S k -> exists r, l = r ++ [x].
Proof.
  intros H L. apply nth_error_split in H as (l1 & l2 & -> & Hl).
  rewrite app_length in L. cbn [length] in L. destruct l2; [|cbn [length] in L; lia].
  exists l1. reflexivity.
Qed.

(** ** UTF-8 bytes and character-wise padding *)
Lemma utf8_cp_length c : Z.of_nat (length (utf8_cp c)) = width c.
Proof. unfold utf8_cp, width. destruct (c <? 128), (c <? 2048), (c <? 65536); reflexivity. Qed.

Lemma utf8_length s : Z.of_nat (length (utf8 s)) = blen s.
Proof.
  induction s as [|c s IH]; [reflexivity|]. unfold utf8 in *. cbn [flat_map blen].
  rewrite app_length, Nat2Z.inj_add, utf8_cp_length, IH. reflexivity.
Qed.

Lemma take_pad_pad_right n s : (length s <= n)%nat -> take_pad n s = pad_right n s.
Proof.
  intros H. unfold take_pad, pad_right.
  replace (repeat 48 n) with (repeat 48%Z (n - length s)%nat ++ repeat 48%Z (length s)).
  2:{ rewrite <- repeat_app. f_equal. lia. }
  rewrite app_assoc, firstn_app.
  replace (n - length (s ++ repeat 48%Z (n - length s)))%nat with O by (rewrite app_length, repeat_length; lia).
  cbn [firstn]. rewrite app_nil_r. apply firstn_all2. rewrite app_length, repeat_length. lia.
Qed.

Lemma take_pad_length n s : length (take_pad n s) = n.
Proof. unfold take_pad. rewrite firstn_length, app_length, repeat_length. lia. Qed.
