(** Model of [vibesql_types::SqlValue] and its [PartialEq]/[PartialOrd]/[Ord]/[Hash] impls
    (crates/vibesql-types/src/sql_value/{mod,comparison,hash}.rs and the derived / hand-written
    impls of temporal/{date,time,timestamp,interval}.rs).

    Floats are modelled by their IEEE bit pattern (a [Z] in [0, 2^w)); strings by their UTF-8
    bytes (Rust compares and hashes [String] bytewise).  No proofs in this file. *)
From Coq Require Import List ZArith Bool.
From VibeSQL Require Import Base.LexOrd Generated.Consts.
Import ListNotations.
Open Scope Z_scope.

Inductive sqlvalue : Type :=
| VInteger (z : Z)
| VSmallint (z : Z)
| VBigint (z : Z)
| VUnsigned (z : Z)
| VNumeric (bits : Z)              (* f64 *)
| VFloat (bits : Z)                (* f32 *)
| VReal (bits : Z)                 (* f32 *)
| VDouble (bits : Z)               (* f64 *)
| VCharacter (s : list Z)
| VVarchar (s : list Z)
| VBoolean (b : bool)
| VDate (y m d : Z)
| VTime (h mi s ns : Z)
| VTimestamp (y m d h mi s ns : Z)
| VInterval (months days micros : Z)   (* the three private fields; [value] text is not compared *)
| VNull.

(** * IEEE-754 by bit pattern.  [w] is the width (32 or 64). *)
Definition f_half (w : Z) : Z := 2 ^ (w - 1).
Definition f_sign (w b : Z) : Z := b / f_half w.
Definition f_mag (w b : Z) : Z := b mod f_half w.
Definition f_inf (w : Z) : Z := if w =? 32 then 2139095040 (* 0x7F800000 *) else 9218868437227405312 (* 0x7FF0000000000000 *).
Definition f_canon_nan (w : Z) : Z := if w =? 32 then 2143289344 (* 0x7FC00000 *) else 9221120237041090560 (* 0x7FF8000000000000 *).
Definition f_is_nan (w b : Z) : bool := f_inf w <? f_mag w b.
(** order-preserving key of a non-NaN float: [-0.0] and [+0.0] both map to [0] *)
Definition f_key (w b : Z) : Z := if f_sign w b =? 0 then f_mag w b else - f_mag w b.
(** [f32::partial_cmp] / [f64::partial_cmp] *)
Definition f_pcmp (w a b : Z) : option comparison :=
  if f_is_nan w a || f_is_nan w b then None else Some (Z.compare (f_key w a) (f_key w b)).
(** IEEE [==] *)
Definition f_ieee_eq (w a b : Z) : bool :=
  match f_pcmp w a b with Some Eq => true | _ => false end.
(** the [if a.is_nan() && b.is_nan() { true } else { a == b }] of [PartialEq] *)
Definition f_eqb (w a b : Z) : bool :=
  if f_is_nan w a && f_is_nan w b then true else f_ieee_eq w a b.
(** the NaN fallback of [Ord::cmp] (reached only when [partial_cmp] is [None]) *)
Definition f_nan_order (w a b : Z) : comparison :=
  if f_is_nan w a && f_is_nan w b then Eq else if f_is_nan w a then Gt else Lt.

(** * Temporal orderings: [a.cmp(b).then_with(..)] chains are lexicographic. *)
Definition date_cmp (y m d y' m' d' : Z) := lex_compare [y; m; d] [y'; m'; d'].
Definition time_cmp (h mi s ns h' mi' s' ns' : Z) := lex_compare [h; mi; s; ns] [h'; mi'; s'; ns'].
Definition ts_cmp (y m d h mi s ns y' m' d' h' mi' s' ns' : Z) :=
  match date_cmp y m d y' m' d' with
  | Eq => time_cmp h mi s ns h' mi' s' ns'
  | c => c
  end.
(** [Interval::cmp_value] (computed in i64/i128 in Rust; no overflow is possible from i32/i32/i64
    fields, so unbounded [Z] is exact) *)
Definition interval_cmp_value (months days micros : Z) : Z :=
  (months * 30 + days) * 86400000000 + micros.

(** * PartialEq::eq *)
Definition eqb (a b : sqlvalue) : bool :=
  match a, b with
  | VNull, VNull => true
  | VNull, _ => false
  | _, VNull => false
  | VInteger x, VInteger y => x =? y
  | VSmallint x, VSmallint y => x =? y
  | VBigint x, VBigint y => x =? y
  | VUnsigned x, VUnsigned y => x =? y
  | VFloat x, VFloat y => f_eqb 32 x y
  | VReal x, VReal y => f_eqb 32 x y
  | VDouble x, VDouble y => f_eqb 64 x y
  | VNumeric x, VNumeric y => f_eqb 64 x y
  | VCharacter x, VCharacter y => match lex_compare x y with Eq => true | _ => false end
  | VVarchar x, VVarchar y => match lex_compare x y with Eq => true | _ => false end
  | VBoolean x, VBoolean y => Bool.eqb x y
  | VDate y m d, VDate y' m' d' => (y =? y') && (m =? m') && (d =? d')
  | VTime h mi s ns, VTime h' mi' s' ns' => (h =? h') && (mi =? mi') && (s =? s') && (ns =? ns')
  | VTimestamp y m d h mi s ns, VTimestamp y' m' d' h' mi' s' ns' =>
      ((y =? y') && (m =? m') && (d =? d')) && ((h =? h') && (mi =? mi') && (s =? s') && (ns =? ns'))
  | VInterval mo da us, VInterval mo' da' us' => (mo =? mo') && (da =? da') && (us =? us')
  | _, _ => false
  end.

(** * PartialOrd::partial_cmp *)
Definition bool_cmp (x y : bool) : comparison :=
  match x, y with
  | false, true => Lt
  | true, false => Gt
  | _, _ => Eq
  end.

Definition pcmp (a b : sqlvalue) : option comparison :=
  match a, b with
  | VNull, _ => None
  | _, VNull => None
  | VInteger x, VInteger y => Some (x ?= y)
  | VSmallint x, VSmallint y => Some (x ?= y)
  | VBigint x, VBigint y => Some (x ?= y)
  | VUnsigned x, VUnsigned y => Some (x ?= y)
  | VFloat x, VFloat y => f_pcmp 32 x y
  | VReal x, VReal y => f_pcmp 32 x y
  | VDouble x, VDouble y => f_pcmp 64 x y
  | VCharacter x, VCharacter y => Some (lex_compare x y)
  | VVarchar x, VVarchar y => Some (lex_compare x y)
  | VNumeric x, VNumeric y => f_pcmp 64 x y
  | VBoolean x, VBoolean y => Some (bool_cmp x y)
  | VDate y m d, VDate y' m' d' => Some (date_cmp y m d y' m' d')
  | VTime h mi s ns, VTime h' mi' s' ns' => Some (time_cmp h mi s ns h' mi' s' ns')
  | VTimestamp y m d h mi s ns, VTimestamp y' m' d' h' mi' s' ns' =>
      Some (ts_cmp y m d h mi s ns y' m' d' h' mi' s' ns')
  | VInterval mo da us, VInterval mo' da' us' =>
      Some (interval_cmp_value mo da us ?= interval_cmp_value mo' da' us')
  | _, _ => None
  end.

(** the [fn type_tag] local to [Ord::cmp]; numerals regenerated from the source *)
Definition type_tag (v : sqlvalue) : Z :=
  match v with
  | VInteger _ => type_tag_Integer
  | VSmallint _ => type_tag_Smallint
  | VBigint _ => type_tag_Bigint
  | VUnsigned _ => type_tag_Unsigned
  | VNumeric _ => type_tag_Numeric
  | VFloat _ => type_tag_Float
  | VReal _ => type_tag_Real
  | VDouble _ => type_tag_Double
  | VCharacter _ => type_tag_Character
  | VVarchar _ => type_tag_Varchar
  | VBoolean _ => type_tag_Boolean
  | VDate _ _ _ => type_tag_Date
  | VTime _ _ _ _ => type_tag_Time
  | VTimestamp _ _ _ _ _ _ _ => type_tag_Timestamp
  | VInterval _ _ _ => type_tag_Interval
  | VNull => type_tag_Null
  end.

(** * Ord::cmp *)
Definition cmp (a b : sqlvalue) : comparison :=
  match a, b with
  | VNull, VNull => Eq
  | VNull, _ => Lt
  | _, VNull => Gt
  | _, _ =>
      match pcmp a b with
      | Some c => c
      | None =>
          match a, b with
          | VFloat x, VFloat y => f_nan_order 32 x y
          | VReal x, VReal y => f_nan_order 32 x y
          | VDouble x, VDouble y => f_nan_order 64 x y
          | VNumeric x, VNumeric y => f_nan_order 64 x y
          | _, _ => Z.compare (type_tag a) (type_tag b)
          end
      end
  end.

(** * Hash: the exact byte sequence fed to the [Hasher] *)
Fixpoint le_bytes (n : nat) (z : Z) : list Z :=
  match n with
  | O => []
  | S n' => (z mod 256) :: le_bytes n' (z / 256)
  end.

Definition discr (v : sqlvalue) : Z :=
  match v with
  | VInteger _ => discr_Integer
  | VSmallint _ => discr_Smallint
  | VBigint _ => discr_Bigint
  | VUnsigned _ => discr_Unsigned
  | VNumeric _ => discr_Numeric
  | VFloat _ => discr_Float
  | VReal _ => discr_Real
  | VDouble _ => discr_Double
  | VCharacter _ => discr_Character
  | VVarchar _ => discr_Varchar
  | VBoolean _ => discr_Boolean
  | VDate _ _ _ => discr_Date
  | VTime _ _ _ _ => discr_Time
  | VTimestamp _ _ _ _ _ _ _ => discr_Timestamp
  | VInterval _ _ _ => discr_Interval
  | VNull => discr_Null
  end.

(** what is hashed for a float: canonical NaN bits for NaN, +0.0 bits for either zero
    (the [fix:] for the [-0.0]/[+0.0] defect), [to_bits()] otherwise *)
Definition f_hash_bits (w b : Z) : Z :=
  if f_is_nan w b then f_canon_nan w else if f_mag w b =? 0 then 0 else b.

Definition str_hash (s : list Z) : list Z := s ++ [255].   (* [str::hash]: bytes, then 0xff *)

Definition hash_payload (v : sqlvalue) : list Z :=
  match v with
  | VInteger z => le_bytes 8 z
  | VSmallint z => le_bytes 2 z
  | VBigint z => le_bytes 8 z
  | VUnsigned z => le_bytes 8 z
  | VNumeric b => le_bytes 8 (f_hash_bits 64 b)
  | VFloat b => le_bytes 4 (f_hash_bits 32 b)
  | VReal b => le_bytes 4 (f_hash_bits 32 b)
  | VDouble b => le_bytes 8 (f_hash_bits 64 b)
  | VCharacter s => str_hash s
  | VVarchar s => str_hash s
  | VBoolean b => [if b then 1 else 0]
  | VDate y m d => le_bytes 4 y ++ [m mod 256] ++ [d mod 256]
  | VTime h mi s ns => [h mod 256; mi mod 256; s mod 256] ++ le_bytes 4 ns
  | VTimestamp y m d h mi s ns =>
      le_bytes 4 y ++ [m mod 256; d mod 256] ++ [h mod 256; mi mod 256; s mod 256] ++ le_bytes 4 ns
  | VInterval mo da us => le_bytes 4 mo ++ le_bytes 4 da ++ le_bytes 8 us
  | VNull => []
  end.

Definition hash_key (v : sqlvalue) : list Z := le_bytes 8 (discr v) ++ hash_payload v.

(** * Well-formedness: what a Rust value of each variant can hold *)
Definition in_range (lo hi z : Z) : bool := (lo <=? z) && (z <? hi).
Definition wf (v : sqlvalue) : bool :=
  match v with
  | VInteger z | VBigint z => in_range (- 2^63) (2^63) z
  | VSmallint z => in_range (- 2^15) (2^15) z
  | VUnsigned z => in_range 0 (2^64) z
  | VNumeric b | VDouble b => in_range 0 (2^64) b
  | VFloat b | VReal b => in_range 0 (2^32) b
  | VCharacter s | VVarchar s => forallb (in_range 0 256) s
  | VBoolean _ => true
  | VDate y m d => in_range (- 2^31) (2^31) y && in_range 0 256 m && in_range 0 256 d
  | VTime h mi s ns => in_range 0 256 h && in_range 0 256 mi && in_range 0 256 s && in_range 0 (2^32) ns
  | VTimestamp y m d h mi s ns =>
      in_range (- 2^31) (2^31) y && in_range 0 256 m && in_range 0 256 d &&
      in_range 0 256 h && in_range 0 256 mi && in_range 0 256 s && in_range 0 (2^32) ns
  | VInterval mo da us => in_range (- 2^31) (2^31) mo && in_range (- 2^31) (2^31) da && in_range (- 2^63) (2^63) us
  | VNull => true
  end.

(** * The one listed class where [Ord] and [Eq] disagree (KNOWN_FINDINGS: interval-linear-tie):
    two intervals with equal linearised value but different (months, days, microseconds). *)
Definition interval_linear_tie (a b : sqlvalue) : bool :=
  match a, b with
  | VInterval mo da us, VInterval mo' da' us' =>
      (interval_cmp_value mo da us =? interval_cmp_value mo' da' us')
      && negb ((mo =? mo') && (da =? da') && (us =? us'))
  | _, _ => false
  end.
