(** Decimal printing and parsing of integers, as Rust's [core::fmt] ([{}], [{:0w}]) and
    [<int>::from_str] do it.  Strings are lists of Unicode scalar values (code points); every
    character this file produces or accepts is ASCII.  Definitions only (proofs: DecLaws.v). *)
From Coq Require Import List ZArith Bool.
Import ListNotations.
Open Scope Z_scope.

Definition str := list Z.

(** ['0'..'9'] ([u8::is_ascii_digit] / [char::is_ascii_digit]) *)
Definition is_digit (c : Z) : bool := (48 <=? c) && (c <=? 57).

(** most significant digit first; [None] on the first non-digit.
    Rust accumulates with [checked_mul]/[checked_add] (negatively for a leading '-') and fails on
    the first overflowing step; because the accumulator is monotone in absolute value this is
    equivalent to computing the unbounded value and range-checking it at the end, which is what
    [parse_int] does. *)
Fixpoint digits_val (acc : Z) (ds : str) : option Z :=
  match ds with
  | [] => Some acc
  | c :: r => if is_digit c then digits_val (acc * 10 + (c - 48)) r else None
  end.

Definition in_range (lo hi v : Z) : option Z := if (lo <=? v) && (v <=? hi) then Some v else None.

(** [core::num::<impl FromStr for iN/uN>::from_str] (radix 10):
    empty -> Err; a lone "+" or "-" -> Err; a leading '+' is always accepted, a leading '-' only
    by signed types (for unsigned types it is then an invalid digit); the rest must be ASCII
    digits only; out of range -> Err. *)
Definition parse_int (signed : bool) (lo hi : Z) (s : str) : option Z :=
  match s with
  | [] => None
  | c :: r =>
      match r with
      | [] => if (c =? 43) || (c =? 45) then None
              else match digits_val 0 s with Some v => in_range lo hi v | None => None end
      | _ :: _ =>
          if c =? 43 then
            match digits_val 0 r with Some v => in_range lo hi v | None => None end
          else if (c =? 45) && signed then
            match digits_val 0 r with Some v => in_range lo hi (- v) | None => None end
          else
            match digits_val 0 s with Some v => in_range lo hi v | None => None end
      end
  end.

Definition parse_u8 := parse_int false 0 255.
Definition parse_u32 := parse_int false 0 4294967295.
Definition parse_i32 := parse_int true (-2147483648) 2147483647.
Definition parse_i64 := parse_int true (-9223372036854775808) 9223372036854775807.

(** digits of a non-negative integer, least significant first; 20 digits of fuel cover u64 *)
Fixpoint digits_rev (fuel : nat) (n : Z) : str :=
  match fuel with
  | O => []
  | S f => (48 + n mod 10) :: (if n <? 10 then [] else digits_rev f (n / 10))
  end.

(** [{}] on a non-negative integer below 10^20 *)
Definition show_nat (n : Z) : str := rev (digits_rev 20 n).

(** left padding with '0' up to [w] characters *)
Definition pad_left (w : nat) (s : str) : str := repeat 48 (w - length s) ++ s.

(** [{:0w}] on an integer: sign-aware zero padding (the '-' counts towards the width) *)
Definition show_int_w (w : nat) (z : Z) : str :=
  if z <? 0 then 45 :: pad_left (w - 1) (show_nat (- z)) else pad_left w (show_nat z).

(** [{:0<w}] on a string: right padding with '0' up to [w] *characters* (fmt counts chars) *)
Definition pad_right (w : nat) (s : str) : str := s ++ repeat 48 (w - length s).
