(** Lexicographic comparison on [list Z] and its order laws (shared by the
    SqlValue ordering model). *)
From Coq Require Import List ZArith Lia.
Import ListNotations.
Open Scope Z_scope.

Fixpoint lex_compare (a b : list Z) : comparison :=
  match a, b with
  | [], [] => Eq
  | [], _ :: _ => Lt
  | _ :: _, [] => Gt
  | x :: a', y :: b' =>
      match Z.compare x y with
      | Eq => lex_compare a' b'
      | c => c
      end
  end.

Lemma lex_compare_refl a : lex_compare a a = Eq.
Proof. induction a as [|x a IH]; cbn; [reflexivity|]. rewrite Z.compare_refl. exact IH. Qed.

Lemma lex_compare_eq_iff a b : lex_compare a b = Eq <-> a = b.
Proof.
  revert b; induction a as [|x a IH]; intros [|y b]; cbn; try (split; congruence).
  destruct (Z.compare_spec x y) as [H|H|H]; subst.
  - rewrite IH. split; [intros ->; reflexivity | intros H; inversion H; reflexivity].
  - split; [discriminate | intros E; inversion E; lia].
  - split; [discriminate | intros E; inversion E; lia].
Qed.

Lemma lex_compare_antisym a b : lex_compare a b = CompOpp (lex_compare b a).
Proof.
  revert b; induction a as [|x a IH]; intros [|y b]; cbn; try reflexivity.
  rewrite (Z.compare_antisym y x).
  destruct (Z.compare y x); cbn; [apply IH | reflexivity | reflexivity].
Qed.

Lemma lex_compare_trans c a b d :
  lex_compare a b = c -> lex_compare b d = c -> lex_compare a d = c.
Proof.
  revert b d; induction a as [|x a IH]; intros [|y b] [|z d]; cbn; try congruence.
  destruct (Z.compare_spec x y) as [Hxy|Hxy|Hxy];
  destruct (Z.compare_spec y z) as [Hyz|Hyz|Hyz];
  destruct (Z.compare_spec x z) as [Hxz|Hxz|Hxz]; subst; try lia; try congruence.
  apply IH.
Qed.

(** [Le]-style transitivity: a <= b, b <= d -> a <= d. *)
Lemma lex_compare_le_trans a b d :
  lex_compare a b <> Gt -> lex_compare b d <> Gt -> lex_compare a d <> Gt.
Proof.
  revert b d; induction a as [|x a IH]; intros [|y b] [|z d]; cbn; try congruence.
  destruct (Z.compare_spec x y) as [Hxy|Hxy|Hxy];
  destruct (Z.compare_spec y z) as [Hyz|Hyz|Hyz];
  destruct (Z.compare_spec x z) as [Hxz|Hxz|Hxz]; subst; try lia; try congruence.
  apply IH.
Qed.
