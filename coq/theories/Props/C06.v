(** C06 — Predicates partition rows consistently under three-valued logic.
    For every row list [l] and every predicate function [p] whose value on each row is TRUE, FALSE or
    NULL: the rows are exactly the disjoint union of those passing [p], [NOT p] and [p IS NULL]; COUNT,
    SUM, MIN, MAX and DISTINCT of the whole are the combinations of the parts; the number of rows passing
    [WHERE p] is the number of TRUEs of [p] in the select list; filtering by conjuncts in two steps equals
    filtering by the conjunction (pushdown).  Only pinned statements, each closed by [exact]. *)
From Coq Require Import List ZArith Bool Permutation.
From VibeSQL Require Import Sem.Syntax Sem.Rel Sem.Laws Sem.Eval Sem.TlpLaws Sem.TlpSem.
Import ListNotations.
Open Scope Z_scope.

Theorem C06_tlp_partition : forall (p : row -> value) (l : list row),
  (forall r, In r l -> tv (p r) = true) ->
  Permutation l (filter (sel_true p) l ++ filter (sel_not p) l ++ filter (sel_isnull p) l).
Proof. exact tlp_partition. Qed.
Print Assumptions C06_tlp_partition.

Theorem C06_tlp_disjoint : forall (p : row -> value) (r : row), tv (p r) = true ->
  (sel_true p r && sel_not p r = false) /\ (sel_true p r && sel_isnull p r = false)
  /\ (sel_not p r && sel_isnull p r = false).
Proof. exact tlp_disjoint. Qed.
Print Assumptions C06_tlp_disjoint.

Theorem C06_tlp_count : forall (p : row -> value) (l : list row),
  (forall r, In r l -> tv (p r) = true) ->
  length l = (length (filter (sel_true p) l) + length (filter (sel_not p) l) + length (filter (sel_isnull p) l))%nat.
Proof. exact tlp_count. Qed.
Print Assumptions C06_tlp_count.

Theorem C06_count_where_eq_count_true : forall (p : row -> value) (l : list row),
  length (filter (sel_true p) l) = length (filter (fun v => is_true v) (map p l)).
Proof. exact count_where_eq_count_true. Qed.
Print Assumptions C06_count_where_eq_count_true.

Theorem C06_tlp_multiplicity : forall (p : row -> value) (l : list row) (x : row),
  (forall r, In r l -> tv (p r) = true) ->
  count_row x l = (count_row x (filter (sel_true p) l) + count_row x (filter (sel_not p) l)
                   + count_row x (filter (sel_isnull p) l))%nat.
Proof. exact tlp_multiplicity. Qed.
Print Assumptions C06_tlp_multiplicity.

Theorem C06_tlp_distinct : forall (p : row -> value) (l : list row) (x : row),
  (forall r, In r l -> tv (p r) = true) ->
  (In x (distinct_rows l) <->
   In x (distinct_rows (filter (sel_true p) l)) \/ In x (distinct_rows (filter (sel_not p) l))
   \/ In x (distinct_rows (filter (sel_isnull p) l))).
Proof. exact tlp_distinct_members. Qed.
Print Assumptions C06_tlp_distinct.

Theorem C06_tlp_sum : forall (f : row -> Z) (p : row -> value) (l : list row),
  (forall r, In r l -> tv (p r) = true) ->
  zsum f l = zsum f (filter (sel_true p) l) + zsum f (filter (sel_not p) l) + zsum f (filter (sel_isnull p) l).
Proof. exact tlp_sum. Qed.
Print Assumptions C06_tlp_sum.

Theorem C06_tlp_min : forall (f : row -> Z) (p : row -> value) (l : list row),
  (forall r, In r l -> tv (p r) = true) ->
  zmin_opt f l = opt_min (zmin_opt f (filter (sel_true p) l))
                   (opt_min (zmin_opt f (filter (sel_not p) l)) (zmin_opt f (filter (sel_isnull p) l))).
Proof. exact tlp_min. Qed.
Print Assumptions C06_tlp_min.

Theorem C06_tlp_max : forall (f : row -> Z) (p : row -> value) (l : list row),
  (forall r, In r l -> tv (p r) = true) ->
  zmin_opt (fun r => - f r) l =
  opt_min (zmin_opt (fun r => - f r) (filter (sel_true p) l))
    (opt_min (zmin_opt (fun r => - f r) (filter (sel_not p) l)) (zmin_opt (fun r => - f r) (filter (sel_isnull p) l))).
Proof. exact tlp_max. Qed.
Print Assumptions C06_tlp_max.

Theorem C06_and_true_iff : forall a b v : value,
  tv_and a b = Ok v -> (is_true v = true <-> is_true a = true /\ is_true b = true).
Proof. exact and_true_iff. Qed.
Print Assumptions C06_and_true_iff.

Theorem C06_pushdown_sound : forall (p q : row -> bool) (l : list row),
  filter q (filter p l) = filter (fun r => p r && q r) l.
Proof. exact pushdown_sound. Qed.
Print Assumptions C06_pushdown_sound.

Theorem C06_truthiness_agree : forall v : value, tv v = true -> truthy_c v = is_true v.
Proof. exact truthiness_agree. Qed.
Print Assumptions C06_truthiness_agree.

(** ... and the laws hold of the reference evaluator's own WHERE filter: whenever [w] evaluates to TRUE,
    FALSE or NULL on every row, the filters for [w], [NOT w] and [w IS NULL] all succeed and split the rows *)
Theorem C06_where_tlp_partition : forall (n : nat) (d : db) (env : list row) (w : expr) (p : row -> value) (l : list row),
  (forall r, In r l -> eval_expr n d (r :: env) w = Ok (p r)) ->
  (forall r, In r l -> tv (p r) = true) ->
  exists a b c,
    where_filter (S n) d env w l = Ok a /\ where_filter (S n) d env (ENot w) l = Ok b
    /\ where_filter (S n) d env (EIsNull w false) l = Ok c /\ Permutation l (a ++ b ++ c).
Proof. exact where_tlp_partition. Qed.
Print Assumptions C06_where_tlp_partition.
