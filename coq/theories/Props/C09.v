(** C09 — UPDATE and DELETE act on exactly the rows their WHERE clause selects.
    Theorems about the reference meaning of the statements (Mech/Dml.v), for every database, table,
    statement and predicate; the executor is tied to it on every run (pre/post snapshots around each
    statement, SELECT ... WHERE p on the pre-state, and the model evaluated in Coq).
    Only pinned statements, each closed by [exact]. *)
From Coq Require Import List ZArith Bool Permutation.
From VibeSQL Require Import Sem.Syntax Sem.Rel Sem.Eval Mech.Dml Mech.DmlLaws.
Import ListNotations.
Open Scope Z_scope.

Theorem C09_delete_exact : forall (d : db) (t : nat) (w : option expr) (rows kept : list row) (n : Z) (sel : list row),
  nth_error d t = Some rows ->
  run_dml d t (DDelete w) = Ok (kept, n) ->
  select_where d t w = Ok sel ->
  Permutation rows (sel ++ kept) /\ n = Z.of_nat (length sel).
Proof. exact delete_exact. Qed.
Print Assumptions C09_delete_exact.

Theorem C09_delete_keeps_unselected : forall (d : db) (t : nat) (w : option expr) (rows kept : list row) (n : Z) (r : row),
  nth_error d t = Some rows ->
  run_dml d t (DDelete w) = Ok (kept, n) ->
  In r kept -> In r rows.
Proof. exact delete_keeps_unselected. Qed.
Print Assumptions C09_delete_keeps_unselected.

Theorem C09_update_exact : forall (d : db) (t : nat) (sets : list (nat * expr)) (w : option expr)
    (rows new_rows : list row) (n : Z),
  nth_error d t = Some rows ->
  run_dml d t (DUpdate sets w) = Ok (new_rows, n) ->
  length new_rows = length rows
  /\ forall i r, nth_error rows i = Some r ->
       exists b, selects d w r = Ok b /\
         (if b then exists r', apply_sets d sets r = Ok r' /\ nth_error new_rows i = Some r'
          else nth_error new_rows i = Some r).
Proof. exact update_exact. Qed.
Print Assumptions C09_update_exact.

Theorem C09_insert_exact : forall (d : db) (t : nat) (new_rows : list (list expr)) (rows out : list row) (n : Z),
  nth_error d t = Some rows ->
  run_dml d t (DInsert new_rows) = Ok (out, n) ->
  exists vals, mapM (fun r => mapM (eval_expr 64 d [[]]) r) new_rows = Ok vals
               /\ out = rows ++ vals /\ n = Z.of_nat (length new_rows).
Proof. exact insert_exact. Qed.
Print Assumptions C09_insert_exact.
