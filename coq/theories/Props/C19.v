(** C19 — SQL dump save/load round-trips table contents.
    Only pinned statements, each closed by [exact] of a lemma proved elsewhere
    (Lex/SplitterLaws.v, Lex/DumpLexLaws.v, Codec/SqlDumpLaws.v, Codec/SqlLoadLaws.v). *)
From Coq Require Import Strings.String.
From Coq Require Import List ZArith Bool.
From VibeSQL Require Import Value.SqlValue Value.Dec Value.RStr.
From VibeSQL Require Import Lex.Splitter Lex.SplitterLaws Lex.DumpLex Lex.DumpLexLaws.
From VibeSQL Require Import Codec.SqlLiteral Codec.SqlLoad Codec.SqlDumpSpec Codec.SqlDumpLaws Codec.SqlLoadLaws.
Import ListNotations.
Open Scope Z_scope.

(** ** string literals: EVERY string written with doubled quotes is read back by the lexer *)
Theorem C19_string_literal_roundtrip : forall (s rest : str),
  (match rest with 39 :: _ => False | _ => True end) ->
  scan_quoted 39 (sql_quote s ++ 39 :: rest) = Some (s, rest).
Proof. exact scan_quoted_roundtrip. Qed.
Print Assumptions C19_string_literal_roundtrip.

(** ** the splitter, on any file of comment lines and statement lines made of plain text and
    quoted literals: it returns the statements and ends outside any string IFF every literal is
    free of newlines and has no odd run of backslashes before a quote or at its end *)
Theorem C19_split_lines_iff : forall ds : list dline,
  forallb dline_wf ds = true ->
  (parse_sql_statements (file_text ds) = expected [] ds /\ ends_clean (file_text ds) = true
   <-> forallb lit_ok (file_lits ds) = true).
Proof. exact split_dump_iff_thm. Qed.
Print Assumptions C19_split_lines_iff.

(** no piece returned by the splitter contains a newline, whatever the input *)
Theorem C19_split_no_newline : forall content : str,
  Forall (fun s => has_nl s = false) (parse_sql_statements content).
Proof. exact split_no_nl_thm. Qed.
Print Assumptions C19_split_no_newline.

(** ** the same for the file written by save_sql_dump, for every database whose names and
    non-string literals are ordinary text: the statements are recovered exactly IFF no string
    value contains a newline or an odd run of backslashes before a quote / at its end *)
Theorem C19_split_dump : forall (fl : float_ops) (itx : Z -> Z -> Z -> str) (g : str) (db : list table),
  generated_ok g = true -> db_benign fl db = true ->
  (parse_sql_statements (dump_text fl itx g db) = dump_expected fl itx g db
   /\ ends_clean (dump_text fl itx g db) = true
   <-> forallb str_ok (db_strings db) = true).
Proof. exact split_dump_thm. Qed.
Print Assumptions C19_split_dump.

(** the returned pieces alone decide (no reference to the scanner's final state): any file of that
    line shape, and the dump of any database with ordinary names *)
Theorem C19_split_lines_output_iff : forall ds : list dline,
  forallb dline_wf ds = true ->
  (parse_sql_statements (file_text ds) = expected [] ds <-> forallb lit_ok (file_lits ds) = true).
Proof. exact split_output_iff_thm. Qed.
Print Assumptions C19_split_lines_output_iff.

Theorem C19_split_dump_output : forall (fl : float_ops) (itx : Z -> Z -> Z -> str) (g : str) (db : list table),
  generated_ok g = true -> db_benign fl db = true ->
  (parse_sql_statements (dump_text fl itx g db) = dump_expected fl itx g db
   <-> forallb str_ok (db_strings db) = true).
Proof. exact split_dump_output_thm. Qed.
Print Assumptions C19_split_dump_output.

Theorem C19_split_dump_refuted_backslash :
  exists ds, forallb dline_wf ds = true /\ existsb has_nl (file_lits ds) = false
             /\ parse_sql_statements (file_text ds) <> expected [] ds
             /\ length (parse_sql_statements (file_text ds)) = 1%nat /\ length (expected [] ds) = 2%nat.
Proof. exact split_refuted_backslash. Qed.
Print Assumptions C19_split_dump_refuted_backslash.

Theorem C19_split_dump_refuted_newline :
  exists ds, forallb dline_wf ds = true
             /\ parse_sql_statements (file_text ds) <> expected [] ds
             /\ parse_sql_statements (file_text ds) = [stmt_text (ex_stmt [SLit [97; 98]])].
Proof. exact split_refuted_newline. Qed.
Print Assumptions C19_split_dump_refuted_newline.

Theorem C19_split_dump_refuted_comment_line :
  exists ds, forallb dline_wf ds = true
             /\ parse_sql_statements (file_text ds) <> expected [] ds
             /\ length (parse_sql_statements (file_text ds)) = 1%nat /\ length (expected [] ds) = 2%nat
             /\ s_in (split_run (file_text ds)) = true.
Proof. exact split_refuted_comment_line. Qed.
Print Assumptions C19_split_dump_refuted_comment_line.

(** ** integers *)
Theorem C19_integer_literal_roundtrip : forall (fl : float_ops) (n : Z),
  0 <= n <= 9223372036854775807 ->
  lex_all (show_int n) = LOk [TNum (show_nat n)]
  /\ parse_value fl [TNum (show_nat n)] = OOk (VInteger n, []).
Proof. exact integer_literal_roundtrip_thm. Qed.
Print Assumptions C19_integer_literal_roundtrip.

(** every negative integer is written as a minus sign followed by a number ... *)
Theorem C19_negative_literal_tokens : forall (n : Z) (r : str) (ts : list tok),
  n < 0 -> val_stop r -> lexes r ts -> lexes (show_int n ++ r) (TSym 45 :: TNum (show_nat (- n)) :: ts).
Proof. exact negative_literal_tokens. Qed.
Print Assumptions C19_negative_literal_tokens.

(** ... which is not a literal for INSERT ... VALUES: the round trip is false for all of them *)
Theorem C19_negative_literal_rejected : forall (fl : float_ops) (n : Z) (rest : list tok),
  n < 0 -> parse_value fl (TSym 45 :: TNum (show_nat (- n)) :: rest) = OErr.
Proof. exact negative_literal_rejected_thm. Qed.
Print Assumptions C19_negative_literal_rejected.

Theorem C19_negative_number_refuted : forall (fl : float_ops) (itx : Z -> Z -> Z -> str),
  exists db, load_sql_dump fl (dump_text fl itx (lit "x") db) = OErr
             /\ db = one_table [col "A" TInteger true] [[VInteger (-5)]].
Proof. exact negative_number_refuted_thm. Qed.
Print Assumptions C19_negative_number_refuted.

(** ** every value of the vocabulary survives literal -> tokens -> literal value -> coercion ->
    storage normalisation *)
Theorem C19_load_value : forall (fl : float_ops) (itx : Z -> Z -> Z -> str), float_text_ok fl ->
  forall (ty : dtype) (nullable : bool) (v : sqlvalue) (r : str) (ts rest : list tok),
  value_ok ty nullable v = true -> val_stop r -> lexes r ts ->
  lexes (sql_value_to_literal fl itx v ++ r) (value_toks fl v ++ ts)
  /\ exists pv cv, parse_value fl (value_toks fl v ++ rest) = OOk (pv, rest)
                   /\ coerce_value fl pv ty = OOk cv /\ normalize_value cv ty = OOk v.
Proof. exact load_value_thm. Qed.
Print Assumptions C19_load_value.

(** ** THE ROUND TRIP: loading the dump of a database of the vocabulary gives that database *)
Theorem C19_dump_roundtrip : forall (fl : float_ops) (itx : Z -> Z -> Z -> str), float_text_ok fl ->
  forall (g : str) (db : list table),
  generated_ok g = true -> db_ok db = true ->
  load_sql_dump fl (dump_text fl itx g db) = OOk db.
Proof. exact dump_roundtrip_thm. Qed.
Print Assumptions C19_dump_roundtrip.

(** the assumptions about the float library functions can be met *)
Theorem C19_float_assumptions_consistent : float_text_ok toy_fl.
Proof. exact toy_float_text_ok. Qed.
Print Assumptions C19_float_assumptions_consistent.

(** ** classes repaired in the code: the former counter-examples reload as themselves *)
Theorem C19_special_float_roundtrip : forall (fl : float_ops) (itx : Z -> Z -> Z -> str),
  let db := one_table [col "A" TDouble true; col "B" TReal true]
              [[VDouble 9221120237041090560; VReal 2143289344]; [VDouble 9218868437227405312; VReal 4286578688];
               [VDouble 18442240474082181120; VReal 2139095040]] in
  db_ok db = true /\ load_sql_dump fl (dump_text fl itx (lit "x") db) = OOk db.
Proof. exact special_float_roundtrip_thm. Qed.
Print Assumptions C19_special_float_roundtrip.

(** a NaN with another payload / sign comes back as the canonical NaN (equal as SqlValue) *)
Theorem C19_nan_payload_canonicalised : forall (fl : float_ops) (itx : Z -> Z -> Z -> str),
  exists db db', load_sql_dump fl (dump_text fl itx (lit "x") db) = OOk db'
                 /\ db = one_table [col "A" TDouble true] [[VDouble 9221120237041090561]; [VDouble 18444492273895866368]]
                 /\ db' = one_table [col "A" TDouble true] [[VDouble 9221120237041090560]; [VDouble 9221120237041090560]].
Proof. exact nan_payload_canonicalised_thm. Qed.
Print Assumptions C19_nan_payload_canonicalised.

Theorem C19_smallint_roundtrip : forall (fl : float_ops) (itx : Z -> Z -> Z -> str),
  let db := one_table [col "A" TSmallint true] [[VSmallint 5]; [VSmallint 32767]; [VSmallint 0]] in
  db_ok db = true /\ load_sql_dump fl (dump_text fl itx (lit "x") db) = OOk db.
Proof. exact smallint_roundtrip_thm. Qed.
Print Assumptions C19_smallint_roundtrip.

Theorem C19_numeric_whole_roundtrip : forall (fl : float_ops), float_text_ok fl ->
  forall (b i p s : Z) (rest : list tok),
  finite_pos 64 b = true -> parse_i64 (show_f64 fl b) = Some i ->
  obind (parse_value fl (TNum (show_f64 fl b) :: rest)) (fun '(pv, _) => coerce_value fl pv (TNumeric p s)) = OOk (VNumeric b).
Proof. exact numeric_whole_roundtrip_thm. Qed.
Print Assumptions C19_numeric_whole_roundtrip.

Theorem C19_char_non_ascii_roundtrip : forall (fl : float_ops) (itx : Z -> Z -> Z -> str),
  let db := one_table [col "A" (TChar 3) true; col "B" (TChar 4) true]
              [[VCharacter [97; 8364; 32]; VCharacter [233; 32; 32; 32]]; [VCharacter [128512; 32; 32]; VCharacter [233; 233; 233; 233]]] in
  db_ok db = true /\ load_sql_dump fl (dump_text fl itx (lit "x") db) = OOk db.
Proof. exact char_non_ascii_roundtrip_thm. Qed.
Print Assumptions C19_char_non_ascii_roundtrip.

(** ** what still fails (faithful model, confirmed on the code): strings that break the splitter *)
Theorem C19_backslash_refuted : forall (fl : float_ops) (itx : Z -> Z -> Z -> str),
  exists db db', load_sql_dump fl (dump_text fl itx (lit "x") db) = OOk db'
                 /\ db = one_table [col "A" (TVarchar None) true] [[VVarchar [97; 92]]; [VVarchar [98]]]
                 /\ db' = one_table [col "A" (TVarchar None) true] [[VVarchar [97; 92]]].
Proof. exact backslash_refuted_thm. Qed.
Print Assumptions C19_backslash_refuted.

Theorem C19_newline_refuted : forall (fl : float_ops) (itx : Z -> Z -> Z -> str),
  exists db db', load_sql_dump fl (dump_text fl itx (lit "x") db) = OOk db'
                 /\ db = one_table [col "A" (TVarchar None) true] [[VVarchar [97; 10; 98]]]
                 /\ db' = one_table [col "A" (TVarchar None) true] [[VVarchar [97; 98]]].
Proof. exact newline_refuted_thm. Qed.
Print Assumptions C19_newline_refuted.

Theorem C19_comment_line_refuted : forall (fl : float_ops) (itx : Z -> Z -> Z -> str),
  exists db, load_sql_dump fl (dump_text fl itx (lit "x") db) = OErr
             /\ db = one_table [col "A" (TVarchar None) true] [[VVarchar [97; 10; 45; 45; 98]]; [VVarchar [99]]].
Proof. exact comment_line_refuted_thm. Qed.
Print Assumptions C19_comment_line_refuted.
