(** C21 — SQL value equality, ordering and hashing are mutually consistent.
    Only pinned statements, each closed by [exact] of a lemma proved elsewhere. *)
From Coq Require Import ZArith List.
From VibeSQL Require Import Value.SqlValue Value.ValueLaws.

Theorem C21_eqb_refl : forall a : sqlvalue, eqb a a = true.
Proof. exact eqb_refl_thm. Qed.
Print Assumptions C21_eqb_refl.

Theorem C21_eqb_sym : forall a b : sqlvalue, eqb a b = eqb b a.
Proof. exact eqb_sym_thm. Qed.
Print Assumptions C21_eqb_sym.

Theorem C21_eqb_trans : forall a b c : sqlvalue, eqb a b = true -> eqb b c = true -> eqb a c = true.
Proof. exact eqb_trans_thm. Qed.
Print Assumptions C21_eqb_trans.

Theorem C21_cmp_antisym : forall a b : sqlvalue, cmp a b = CompOpp (cmp b a).
Proof. exact cmp_antisym_thm. Qed.
Print Assumptions C21_cmp_antisym.

Theorem C21_cmp_trans : forall (c : comparison) (a b d : sqlvalue), cmp a b = c -> cmp b d = c -> cmp a d = c.
Proof. exact cmp_trans_thm. Qed.
Print Assumptions C21_cmp_trans.

Theorem C21_cmp_le_trans : forall a b d : sqlvalue, cmp a b <> Gt -> cmp b d <> Gt -> cmp a d <> Gt.
Proof. exact cmp_le_trans_thm. Qed.
Print Assumptions C21_cmp_le_trans.

Theorem C21_cmp_total : forall a b : sqlvalue, cmp a b <> Gt \/ cmp b a <> Gt.
Proof. exact cmp_total_thm. Qed.
Print Assumptions C21_cmp_total.

(** agreement of the sort order with equality, for every pair outside the listed class
    [interval_linear_tie] (KNOWN_FINDINGS: C21 interval-linear-tie) *)
Theorem C21_cmp_eq_iff_eqb : forall a b : sqlvalue,
  interval_linear_tie a b = false -> (cmp a b = Eq <-> eqb a b = true).
Proof. exact cmp_eq_iff_eqb_thm. Qed.
Print Assumptions C21_cmp_eq_iff_eqb.

(** the full statement (no side condition) is false of the faithful model: the witness *)
Theorem C21_cmp_eq_iff_eqb_refuted :
  exists a b : sqlvalue, interval_linear_tie a b = true /\ cmp a b = Eq /\ eqb a b = false.
Proof. exact cmp_eq_iff_eqb_refuted. Qed.
Print Assumptions C21_cmp_eq_iff_eqb_refuted.

Theorem C21_eq_hash : forall a b : sqlvalue,
  wf a = true -> wf b = true -> eqb a b = true -> hash_key a = hash_key b.
Proof. exact eq_hash_thm. Qed.
Print Assumptions C21_eq_hash.
