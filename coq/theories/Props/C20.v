(** C20 — Loading damaged database files fails cleanly.
    Only pinned statements, each closed by [exact] of a lemma proved elsewhere.
    [load_binary E bs] is the model of [Database::load_binary] on the file content [bs] (ANY list of
    numbers), returning the trace of allocation requests and the outcome. *)
From Coq Require Import String List ZArith Bool.
From VibeSQL Require Import Value.SqlValue Codec.BinUtf8 Codec.BinDec Codec.BinPrim Codec.BinValue Codec.BinType
  Codec.BinExpr Codec.BinFile Codec.BinCanon Codec.BinPrimLaws Codec.BinDecLaws Codec.BinValueLaws Codec.BinFileLaws.
Import ListNotations.
Open Scope Z_scope.

(** ** termination: no byte string exhausts the loop fuel of the model -- every count-driven loop
    ([schema_count], [column_count], [row_count] ... read from the file) is bounded by the input it
    consumes, not by the count *)
Theorem C20_load_never_out_of_fuel : forall E bs, load_result E bs <> OutOfFuel.
Proof. exact load_never_out_of_fuel. Qed.
Print Assumptions C20_load_never_out_of_fuel.

(** ** panics.  Full statement "no Panic on any byte string" is still false of the faithful model:
    CHAR(n) with n > 65535 and a shorter value panics in the padding ([format!] width above u16::MAX) *)
Theorem C20_decode_total_refuted_width : load_result E0 file_char_width = Panic PFmtWidth.
Proof. exact decode_total_refuted_width. Qed.
Print Assumptions C20_decode_total_refuted_width.

(** the former slicing panic is gone: VARCHAR(1) with a 2-byte character is cut on a character boundary *)
Theorem C20_varchar_cut_on_boundary :
  load_result E0 file_varchar_slice
  = Ok (mkDb [] [] [mkTable (lit "T") [mkCol (lit "A") (TVarchar (Some 1)) true] [[BV (VVarchar [])]] 0] [] []) [].
Proof. exact varchar_cut_on_boundary. Qed.
Print Assumptions C20_varchar_cut_on_boundary.

(** every panic of the loader is one of: a temporal parser panicking on some text, or the CHAR padding
    of [Table::insert] on a catalog that has a CHAR(n) column *)
Theorem C20_load_panic_classified : forall E bs t p,
  load_binary E bs = (t, Panic p) ->
  pT E p \/ (p = PFmtWidth /\
             exists t1 d r, catalog_phase E bs = (t1, Ok d r) /\ limited (d_tables d) = true).
Proof. exact load_panic_classified. Qed.
Print Assumptions C20_load_panic_classified.

(** the true statement, under the exact side conditions *)
Theorem C20_decode_total : forall E bs,
  ~ temporal_panics E ->
  (forall t1 d r, catalog_phase E bs = (t1, Ok d r) -> limited (d_tables d) = false) ->
  forall p, load_result E bs <> Panic p.
Proof. exact decode_total. Qed.
Print Assumptions C20_decode_total.

(** ** hangs: no byte string makes the loader spin.  The only input-free loop (rows of a table without
    columns) is rejected; the 58-byte file that used to run 2^64-1 iterations now fails cleanly *)
Theorem C20_decode_never_hangs : forall E bs, load_result E bs <> Hang.
Proof. exact decode_never_hangs. Qed.
Print Assumptions C20_decode_never_hangs.

Theorem C20_zero_cols_rejected : load_result E0 file_zero_cols = Err (ECatalog 7) /\ blen file_zero_cols = 58.
Proof. exact zero_cols_rejected. Qed.
Print Assumptions C20_zero_cols_rejected.

(** ** stack: [read_expression] recurses once per nesting level of a trigger's WHEN expression, now under
    a depth guard.  A stack that holds one frame more than the guard admits is never overflowed, by ANY
    byte string; every file nested beyond the guard is rejected with an error (it used to abort the process) *)
Theorem C20_no_stack_overflow : forall E bs,
  Generated.Consts.bin_max_expr_depth + 1 <= stack_limit E -> load_result E bs <> StackOverflow.
Proof. exact no_stack_overflow. Qed.
Print Assumptions C20_no_stack_overflow.

Theorem C20_deep_nesting_rejected : forall E k,
  Generated.Consts.bin_max_expr_depth + 1 <= stack_limit E -> Generated.Consts.bin_max_expr_depth <= Z.of_nat k ->
  load_result E (overflow_file k) = Err EDepth.
Proof. exact deep_nesting_rejected. Qed.
Print Assumptions C20_deep_nesting_rejected.

(** on smaller stacks: a file shorter than the nesting the stack can hold never overflows it *)
Theorem C20_no_stack_overflow_when_shallow : forall E bs,
  blen bs < stack_limit E -> load_result E bs <> StackOverflow.
Proof. exact no_stack_overflow_when_shallow. Qed.
Print Assumptions C20_no_stack_overflow_when_shallow.

(** ** allocations: every buffer the loader fills is within max(file size, 65535), whatever the outcome
    ([read_string] no longer sizes its buffer from the length prefix); the 24-byte file whose prefix
    says 4 GiB buffers nothing and is rejected *)
Theorem C20_alloc_bounded : forall E bs, Forall (ev_le (bound bs)) (load_trace E bs).
Proof. exact alloc_bounded. Qed.
Print Assumptions C20_alloc_bounded.

Theorem C20_big_prefix_rejected :
  blen file_big_prefix = 24 /\ load_trace E0 file_big_prefix = [Alloc 0]
  /\ load_result E0 file_big_prefix = Err EEof.
Proof. exact big_prefix_rejected. Qed.
Print Assumptions C20_big_prefix_rejected.

(** ** rejection of malformed headers and tags *)
Theorem C20_truncated_header_rejected : forall E bs, blen bs < 16 -> exists e, load_binary E bs = ([], Err e).
Proof. exact truncated_header_rejected. Qed.
Print Assumptions C20_truncated_header_rejected.

Theorem C20_bad_magic_rejected : forall E bs,
  5 <= blen bs -> firstn 5 bs <> Generated.Consts.bin_magic -> load_binary E bs = ([], Err EMagic).
Proof. exact bad_magic_rejected. Qed.
Print Assumptions C20_bad_magic_rejected.

Theorem C20_future_version_rejected : forall E v rest,
  Generated.Consts.bin_version < v -> load_binary E (Generated.Consts.bin_magic ++ v :: rest) = ([], Err EVersion).
Proof. exact future_version_rejected. Qed.
Print Assumptions C20_future_version_rejected.

Theorem C20_unknown_tag_rejected : forall E b rest,
  (forall k, b <> tag_byte k) -> read_value E (b :: rest) = ([], Err (ETag b)).
Proof. exact unknown_tag_rejected. Qed.
Print Assumptions C20_unknown_tag_rejected.
