(** C13 — ROLLBACK restores exactly the state at BEGIN; COMMIT keeps the state after the last statement.
    Only pinned statements, each closed by [exact] of a lemma proved in Store/TxnLaws.v.

    [step]/[run] are the statement semantics of Store/Savepoint.v over the database model of
    Store/Txn.v; [inside o] excludes COMMIT and ROLLBACK (any other statement may sit between BEGIN and
    the closing ROLLBACK); [obs_eq] compares catalog listing, table contents, storage index listing and
    the answer of every point query, asked through a user index where the engine would use one. *)
From Coq Require Import List ZArith.
From VibeSQL Require Import Value.SqlValue Store.Txn Store.Savepoint Store.TxnLaws.
Import ListNotations.
Open Scope Z_scope.

(** the part of the property that holds for EVERY statement sequence: ROLLBACK succeeds, tables and
    catalog are exactly those before BEGIN, no transaction is left; the user indexes are whatever the
    statements left (they are outside the snapshot) *)
Theorem C13_rollback_restores_tables_catalog : forall (db : db) (ops : list op),
  d_tx db = None -> Forall (fun o => inside o = true) ops ->
  let after := run (fst (step db OBegin)) ops in
  let res := step after ORollback in
  snd res = ROk 0 /\ d_cat (fst res) = d_cat db /\ d_tabs (fst res) = d_tabs db /\
  d_tx (fst res) = None /\ d_uix (fst res) = d_uix after.
Proof. exact rollback_restores_tables_catalog. Qed.
Print Assumptions C13_rollback_restores_tables_catalog.

(** the full statement (every observation restored) is false of the faithful model: an UPDATE of an
    indexed column inside the transaction leaves the index changed after ROLLBACK and the point query
    through it answers differently (KNOWN: C13 rollback-user-index-not-restored) *)
Theorem C13_rollback_restores_refuted :
  exists (db : db) (ops : list op) t c k o,
    d_tx db = None /\ Forall (fun o => inside o = true) ops /\
    q_point (fst (step (run (fst (step db OBegin)) ops) ORollback)) t c k o <> q_point db t c k o.
Proof. exact rollback_restores_refuted. Qed.
Print Assumptions C13_rollback_restores_refuted.

(** ... and CREATE INDEX inside the transaction survives the ROLLBACK on the storage side
    (KNOWN: C13 ddl-in-transaction-not-undone) *)
Theorem C13_rollback_ddl_refuted :
  exists (db : db) (ops : list op),
    d_tx db = None /\ Forall (fun o => inside o = true) ops /\
    storage_index_listing (fst (step (run (fst (step db OBegin)) ops) ORollback)) <> storage_index_listing db.
Proof. exact rollback_ddl_refuted. Qed.
Print Assumptions C13_rollback_ddl_refuted.

(** the true statement under the exact side condition: when no statement of the transaction touches
    a user index ([leaves_indexes]: no CREATE INDEX, DROP INDEX only of names the storage does not
    hold, INSERT/UPDATE/DELETE only on tables without a user index), the rolled-back database IS the
    database before BEGIN *)
Theorem C13_rollback_restores : forall (db : db) (ops : list op),
  d_tx db = None -> Forall (fun o => inside o = true) ops ->
  Forall (fun o => leaves_indexes (d_uix db) o = true) ops ->
  fst (step (run (fst (step db OBegin)) ops) ORollback) = db.
Proof. exact rollback_restores. Qed.
Print Assumptions C13_rollback_restores.

Theorem C13_rollback_restores_obs : forall (db : db) (ops : list op),
  d_tx db = None -> Forall (fun o => inside o = true) ops ->
  Forall (fun o => leaves_indexes (d_uix db) o = true) ops ->
  obs_eq (fst (step (run (fst (step db OBegin)) ops) ORollback)) db.
Proof. exact rollback_restores_obs. Qed.
Print Assumptions C13_rollback_restores_obs.

(** no later statement sequence can tell the rolled-back database from the original *)
Theorem C13_rollback_then_continue : forall (db : db) (ops epilogue : list op),
  d_tx db = None -> Forall (fun o => inside o = true) ops ->
  Forall (fun o => leaves_indexes (d_uix db) o = true) ops ->
  run (fst (step (run (fst (step db OBegin)) ops) ORollback)) epilogue = run db epilogue.
Proof. exact rollback_then_continue. Qed.
Print Assumptions C13_rollback_then_continue.

(** the case named in the property: no user index exists and none is created *)
Theorem C13_rollback_restores_without_user_indexes : forall (db : db) (ops : list op),
  d_tx db = None -> d_uix db = [] ->
  Forall (fun o => inside o = true) ops -> Forall (fun o => creates_index o = false) ops ->
  fst (step (run (fst (step db OBegin)) ops) ORollback) = db.
Proof. exact rollback_restores_without_user_indexes. Qed.
Print Assumptions C13_rollback_restores_without_user_indexes.

(** exactly which part of the observation can differ, for every statement sequence: the storage
    index listing and the point queries evaluated on the restored tables through the left-over
    index contents *)
Theorem C13_rollback_obs_iff_index_part : forall (db : db) (ops : list op),
  d_tx db = None -> Forall (fun o => inside o = true) ops ->
  let after := run (fst (step db OBegin)) ops in
  let rolled := fst (step after ORollback) in
  obs_eq rolled db <->
  (storage_index_listing after = storage_index_listing db /\
   forall t c k o, q_point (mkDb (d_cat db) (d_tabs db) (d_uix after) None) t c k o = q_point db t c k o).
Proof. exact rollback_obs_iff_index_part. Qed.
Print Assumptions C13_rollback_obs_iff_index_part.

(** growing transactions -- INSERTs (SQL or storage API), UPDATEs that assign a column no user index
    covers, SAVEPOINT / RELEASE / record_change -- with ANY user indexes in ANY state: every observation
    right after ROLLBACK equals the one before BEGIN (the index entries the transaction left behind
    point past the end of the restored tables) ... *)
Theorem C13_rollback_restores_obs_growing : forall (db : db) (ops : list op),
  d_tx db = None -> Forall (fun o => grows_only (d_uix db) o = true) ops ->
  obs_eq (fst (step (run (fst (step db OBegin)) ops) ORollback)) db.
Proof. exact rollback_restores_obs_growing. Qed.
Print Assumptions C13_rollback_restores_obs_growing.

(** ... but the state is not restored: one committed INSERT after the ROLLBACK is answered twice
    through the index (confirmed on the real code) *)
Theorem C13_rollback_insert_only_continuation_refuted :
  exists (db : db) (ops epilogue : list op) t c k o,
    d_tx db = None /\ Forall (fun o => grows_only (d_uix db) o = true) ops /\
    q_point (run (fst (step (run (fst (step db OBegin)) ops) ORollback)) epilogue) t c k o
    <> q_point (run db epilogue) t c k o.
Proof. exact rollback_insert_only_continuation_refuted. Qed.
Print Assumptions C13_rollback_insert_only_continuation_refuted.

(** COMMIT: succeeds and changes nothing but the transaction state, in every state with an active
    transaction ... *)
Theorem C13_commit_keeps : forall d : db,
  d_tx d <> None ->
  let res := step d OCommit in
  snd res = ROk 0 /\ d_cat (fst res) = d_cat d /\ d_tabs (fst res) = d_tabs d /\
  d_uix (fst res) = d_uix d /\ d_tx (fst res) = None.
Proof. exact commit_keeps. Qed.
Print Assumptions C13_commit_keeps.

(** ... hence after BEGIN; ops; COMMIT every observation equals the one after the last statement *)
Theorem C13_commit_keeps_obs : forall (db : db) (ops : list op),
  d_tx db = None -> Forall (fun o => inside o = true) ops ->
  let after := run (fst (step db OBegin)) ops in
  obs_eq (fst (step after OCommit)) after.
Proof. exact commit_keeps_obs. Qed.
Print Assumptions C13_commit_keeps_obs.
