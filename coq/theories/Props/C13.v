(** C13 — ROLLBACK restores exactly the state at BEGIN; COMMIT keeps the state after the last statement.
    Only pinned statements, each closed by [exact] of a lemma proved in Store/TxnLaws.v.

    The code modelled is /repo with fixes/C13-rollback-rebuilds-user-indexes.patch applied: BEGIN remembers
    (catalog, tables, definitions of the user indexes); ROLLBACK restores catalog and tables, drops every
    storage index and creates the remembered ones again from the restored tables.

    [step]/[run] are the statement semantics of Store/Savepoint.v over the database model of
    Store/Txn.v; [inside o] excludes COMMIT and ROLLBACK (any other statement may sit between BEGIN and
    the closing ROLLBACK); [obs_eq] compares catalog listing, table contents, storage index listing and
    the answer of every point query, asked through a user index where the engine would use one;
    [refresh db] is [db] with every user index rebuilt from its table; [fresh db] says the user indexes of
    [db] already are what a rebuild produces (same definitions, same row indices under every key). *)
From Coq Require Import List ZArith.
From VibeSQL Require Import Value.SqlValue Store.Txn Store.Savepoint Store.TxnLaws.
Import ListNotations.
Open Scope Z_scope.

(** for EVERY state and EVERY statement sequence (DML on indexed columns and index DDL included):
    BEGIN; ops; ROLLBACK leaves exactly [refresh db]; it reports Ok unless an index definition of [db]
    cannot be rebuilt (table or column missing, duplicate name) *)
Theorem C13_rollback_is_refresh : forall (db : db) (ops : list op),
  d_tx db = None -> Forall (fun o => inside o = true) ops ->
  let res := step (run (fst (step db OBegin)) ops) ORollback in
  fst res = refresh db /\ snd res = (if refresh_ok db then ROk 0 else RErr).
Proof. exact rollback_is_refresh. Qed.
Print Assumptions C13_rollback_is_refresh.

(** tables and catalog are exactly those before BEGIN, no transaction is left *)
Theorem C13_rollback_restores_tables_catalog : forall (db : db) (ops : list op),
  d_tx db = None -> Forall (fun o => inside o = true) ops ->
  let res := step (run (fst (step db OBegin)) ops) ORollback in
  d_cat (fst res) = d_cat db /\ d_tabs (fst res) = d_tabs db /\ d_tx (fst res) = None.
Proof. exact rollback_restores_tables_catalog. Qed.
Print Assumptions C13_rollback_restores_tables_catalog.

(** the property: from a state whose user indexes mirror their tables, every observation after
    ROLLBACK equals the one before BEGIN, for every statement sequence *)
Theorem C13_rollback_restores : forall (db : db) (ops : list op),
  d_tx db = None -> fresh db -> Forall (fun o => inside o = true) ops ->
  let res := step (run (fst (step db OBegin)) ops) ORollback in
  snd res = ROk 0 /\ d_cat (fst res) = d_cat db /\ d_tabs (fst res) = d_tabs db /\
  d_tx (fst res) = None /\ uix_equiv (d_uix (fst res)) (d_uix db) /\ obs_eq (fst res) db.
Proof. exact rollback_restores. Qed.
Print Assumptions C13_rollback_restores.

(** no user index before BEGIN: the rolled-back database IS the database before BEGIN (also when the
    transaction created indexes) ... *)
Theorem C13_rollback_restores_without_user_indexes : forall (db : db) (ops : list op),
  d_tx db = None -> d_uix db = [] -> Forall (fun o => inside o = true) ops ->
  let res := step (run (fst (step db OBegin)) ops) ORollback in
  fst res = db /\ snd res = ROk 0.
Proof. exact rollback_restores_without_user_indexes. Qed.
Print Assumptions C13_rollback_restores_without_user_indexes.

(** ... and no later statement sequence can tell the difference *)
Theorem C13_rollback_then_continue_without_user_indexes : forall (db : db) (ops epilogue : list op),
  d_tx db = None -> d_uix db = [] -> Forall (fun o => inside o = true) ops ->
  run (fst (step (run (fst (step db OBegin)) ops) ORollback)) epilogue = run db epilogue.
Proof. exact rollback_then_continue_without_user_indexes. Qed.
Print Assumptions C13_rollback_then_continue_without_user_indexes.

(** the exact condition, for every state and statement sequence: the observation is restored iff
    rebuilding the indexes of the original state changes no observation *)
Theorem C13_rollback_obs_iff : forall (db : db) (ops : list op),
  d_tx db = None -> Forall (fun o => inside o = true) ops ->
  obs_eq (fst (step (run (fst (step db OBegin)) ops) ORollback)) db <-> obs_eq (refresh db) db.
Proof. exact rollback_obs_iff. Qed.
Print Assumptions C13_rollback_obs_iff.

(** the two witnesses that refuted C13 before the repair are restored now: UPDATE of an indexed
    column inside the transaction (was C13_rollback_restores_refuted) ... *)
Theorem C13_rollback_restores_former_witness_update :
  d_uix (run (fst (step wit13_db OBegin)) wit13_ops) <> d_uix wit13_db /\
  fst (step (run (fst (step wit13_db OBegin)) wit13_ops) ORollback) = wit13_db.
Proof. exact rollback_restores_former_witness_update. Qed.
Print Assumptions C13_rollback_restores_former_witness_update.

(** ... and CREATE INDEX inside the transaction (was C13_rollback_ddl_refuted) *)
Theorem C13_rollback_restores_former_witness_ddl :
  let db := mkDb (mkCat [0] []) [(0, mkTable [TInt; TInt] [])] [] None in
  storage_index_listing (run (fst (step db OBegin)) [OCreateIndex 0 0 1%nat]) <> storage_index_listing db /\
  fst (step (run (fst (step db OBegin)) [OCreateIndex 0 0 1%nat]) ORollback) = db.
Proof. exact rollback_restores_former_witness_ddl. Qed.
Print Assumptions C13_rollback_restores_former_witness_ddl.

(** without [fresh] the statement is false: a state whose index was left stale by ROLLBACK TO
    SAVEPOINT (C14 / C15: the undo does not maintain user indexes) is REPAIRED by BEGIN; ROLLBACK, so a
    query that answered wrongly before BEGIN answers correctly afterwards (confirmed on the engine;
    the defect is the stale index, not the ROLLBACK) *)
Theorem C13_rollback_restores_stale_refuted :
  exists (db : db) (ops : list op) t c k o,
    d_tx db = None /\ Forall (fun o => inside o = true) ops /\
    q_point (fst (step (run (fst (step db OBegin)) ops) ORollback)) t c k o <> q_point db t c k o.
Proof. exact rollback_restores_stale_refuted. Qed.
Print Assumptions C13_rollback_restores_stale_refuted.

(** COMMIT: succeeds and changes nothing but the transaction state, in every state with an active
    transaction ... *)
Theorem C13_commit_keeps : forall d : db,
  d_tx d <> None ->
  let res := step d OCommit in
  snd res = ROk 0 /\ d_cat (fst res) = d_cat d /\ d_tabs (fst res) = d_tabs d /\
  d_uix (fst res) = d_uix d /\ d_tx (fst res) = None.
Proof. exact commit_keeps. Qed.
Print Assumptions C13_commit_keeps.

(** ... hence after BEGIN; ops; COMMIT every observation equals the one after the last statement *)
Theorem C13_commit_keeps_obs : forall (db : db) (ops : list op),
  d_tx db = None -> Forall (fun o => inside o = true) ops ->
  let after := run (fst (step db OBegin)) ops in
  obs_eq (fst (step after OCommit)) after.
Proof. exact commit_keeps_obs. Qed.
Print Assumptions C13_commit_keeps_obs.
