(** C16 — Query results do not depend on the index storage backend.
    Theorems about the glue that differs between the in-memory and the disk-backed backend
    (database/indexes/index_maintenance.rs and range_scan.rs): removal of one row's entry, and the
    translation of a first-column bound into whole-key bounds.  Only pinned statements, each closed by
    [exact]. *)
From Coq Require Import List ZArith Bool.
From VibeSQL Require Import Base.LexOrd Mech.IndexBackend Mech.IndexBackendLaws.
Import ListNotations.
Open Scope Z_scope.

Theorem C16_remove_one_eq_in_memory : forall (k : key) (r : Z) (ix : index),
  NoDup ix -> disk_remove_one k r ix = mem_remove k r ix.
Proof. exact remove_one_eq_mem. Qed.
Print Assumptions C16_remove_one_eq_in_memory.

Theorem C16_remove_one_keeps_others : forall (k : key) (r : Z) (ix : index) (e : entry),
  e <> (k, r) -> In e ix -> In e (disk_remove_one k r ix).
Proof. exact remove_one_keeps_others. Qed.
Print Assumptions C16_remove_one_keeps_others.

Theorem C16_update_keeps_other_rows : forall (old new : key) (r r' : Z) (ix : index),
  r' <> r -> In (old, r') ix -> In r' (lookup old (update_entry disk_remove_one old new r ix)).
Proof. exact update_keeps_other_rows. Qed.
Print Assumptions C16_update_keeps_other_rows.

Theorem C16_remove_all_refuted : exists old new r r' ix,
  r' <> r /\ In (old, r') ix /\ ~ In r' (lookup old (update_entry disk_remove_all old new r ix)).
Proof. exact remove_all_refuted. Qed.
Print Assumptions C16_remove_all_refuted.

Theorem C16_successor_bound_exact : forall (lo hi : Z) (k : key), k <> [] ->
  in_key_range [lo] [hi + 1] false k = in_first_range lo hi k.
Proof. exact successor_bound_exact. Qed.
Print Assumptions C16_successor_bound_exact.

Theorem C16_scan_exact : forall (lo hi : Z) (ix : index),
  (forall e, In e ix -> fst e <> []) -> scan_succ lo hi ix = scan_spec lo hi ix.
Proof. exact scan_succ_exact. Qed.
Print Assumptions C16_scan_exact.

Theorem C16_inclusive_end_refuted : exists lo hi ix,
  (forall e, In e ix -> fst e <> []) /\ disk_scan_v1 lo hi ix <> scan_spec lo hi ix.
Proof. exact inclusive_end_refuted. Qed.
Print Assumptions C16_inclusive_end_refuted.

Theorem C16_inclusive_end_single_column : forall lo hi a : Z,
  in_key_range [lo] [hi] true [a] = in_first_range lo hi [a].
Proof. exact inclusive_end_single_column. Qed.
Print Assumptions C16_inclusive_end_single_column.
