(** C03 — The columnar aggregate fast path returns exactly what row execution returns.
    Theorems about the model of the columnar path (predicate extraction, filter bitmap, column
    loops, empty-input early return) against the row path (three-valued WHERE, accumulators), for
    every table, every WHERE conjunction and every aggregate list.  Only pinned statements, each
    closed by [exact]. *)
From Coq Require Import List ZArith Bool.
From VibeSQL Require Import Sem.Syntax Sem.Rel Mech.Accumulator Mech.Columnar Mech.ColumnarLaws.
Import ListNotations.
Open Scope Z_scope.

(** whenever the columnar path answers, its row is the row path's row *)
Theorem C03_columnar_eq_row : forall (rows : list row) (ps : list cpred) (sels : list csel) (res : list ares),
  where_typed ps rows = true -> forallb (sel_typed rows) sels = true ->
  columnar_exec rows ps sels = Some res -> res = row_exec rows ps sels.
Proof. exact columnar_eq_row. Qed.
Print Assumptions C03_columnar_eq_row.

(** the filter bitmap is the WHERE clause under three-valued logic *)
Theorem C03_bitmap_is_where : forall (ps : list cpred) (xs : list xpred) (rows : list row),
  where_typed ps rows = true -> extract ps = Some xs -> bitmap xs rows = map (passes3 ps) rows.
Proof. exact bitmap_is_where. Qed.
Print Assumptions C03_bitmap_is_where.

(** each column loop is the accumulator run over the selected values *)
Theorem C03_col_agg_is_accumulator : forall (f : accfn) (bm : option (list bool)) (vals : list value),
  (match f with FSum | FAvg => all_ints (sel bm vals) = true | _ => True end) ->
  col_agg f bm vals = acc_run f false (sel bm vals).
Proof. exact col_agg_is_accumulator. Qed.
Print Assumptions C03_col_agg_is_accumulator.

(** one row, and COUNT never NULL, on the columnar path *)
Theorem C03_columnar_one_row : forall rows ps sels res,
  columnar_exec rows ps sels = Some res -> length res = length sels.
Proof. exact columnar_one_row. Qed.
Print Assumptions C03_columnar_one_row.

Theorem C03_columnar_count_not_null : forall rows ps s res,
  (s = CCountStar \/ exists c, s = CAgg FCount c) ->
  columnar_exec rows ps [s] = Some [res] -> exists n, res = ARVal (VInt n).
Proof. exact columnar_count_not_null. Qed.
Print Assumptions C03_columnar_count_not_null.
