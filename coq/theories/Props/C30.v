(** C30 - Python DB-API parameter binding is faithful.
    Only pinned statements, each closed by [exact] of a lemma proved in the Laws files.

    The statements are about the code AS IT IS NOW in /repo's working tree: the statement cache is keyed
    by the bound text and [py_to_sqlvalue] refuses non-finite floats and ints outside i64
    (fixes/C30-cache-key-bound-text.patch, fixes/C30-reject-unrepresentable-values.patch applied):
    [bind_now], [run_now], [read_back_now].  Refutations remain only for what is still broken: a '?'
    inside a literal / identifier / comment is a placeholder, and a literal can merge with a neighbouring
    '-' or quote (fixes/C30-literal-aware-substitution.patch, not applied).  The theorems about the code
    before the two fix commits ([execute], [bind_parameters], [read_back]: replay of the first call's
    parameters, hit ignoring the tuple, inf/NaN as identifiers, ints rounded to doubles) stay in
    Store/CursorLaws.v and Lex/PlaceholderLaws.v as the record of the fixed findings. *)
From Coq Require Import ZArith List.
From VibeSQL Require Import Lex.F64Display Lex.F64DisplayLaws Lex.F64RoundLaws Lex.F64DragonLaws Lex.Placeholder
  Lex.PlaceholderLaws Lex.FloatTextLaws Lex.FloatRoundtripLaws Lex.PlaceholderFixed Lex.PlaceholderFixedLaws
  Store.Cursor Store.CursorLaws.
Import ListNotations.
Open Scope Z_scope.

(** * substitute_placeholders, by induction on the text (unchanged by the fix commits) *)

(** the second half of a text continues with the values the first half left over *)
Theorem C30_substitute_app : forall (a b : text) (vals : list bval),
  substitute (a ++ b) vals = substitute a vals ++ substitute b (skipn (count_qm a) vals).
Proof. exact substitute_app. Qed.
Print Assumptions C30_substitute_app.

(** exactly the first [count_qm sql] values are consumed; output length *)
Theorem C30_substitute_length : forall (sql : text) (vals : list bval),
  (length (substitute sql vals) + count_qm sql = length sql + total_len (firstn (count_qm sql) vals))%nat.
Proof. exact substitute_length. Qed.
Print Assumptions C30_substitute_length.

(** one pass: the '?' of the result are exactly those inside the printed values *)
Theorem C30_substitute_count_qm : forall (sql : text) (vals : list bval),
  count_qm (substitute sql vals) = total_qm (firstn (count_qm sql) vals).
Proof. exact substitute_count_qm. Qed.
Print Assumptions C30_substitute_count_qm.

(** no '?' is left when no printed value contains one *)
Theorem C30_substitute_no_qm_left : forall (sql : text) (vals : list bval),
  Forall (fun v => count_qm (print_value v) = O) vals -> count_qm (substitute sql vals) = O.
Proof. exact substitute_no_qm_left. Qed.
Print Assumptions C30_substitute_no_qm_left.

(** surplus '?' are dropped (unreachable through bind_parameters, which checks the count first) *)
Theorem C30_substitute_surplus_dropped : forall sql : text,
  substitute sql [] = filter (fun c => negb (c =? c_qm)) sql.
Proof. exact substitute_nil. Qed.
Print Assumptions C30_substitute_surplus_dropped.

Theorem C30_bind_count : forall (sql : text) (ps : list pyval) (t : text),
  bind_now sql ps = Some t -> count_qm sql = length ps.
Proof. exact bind_now_count. Qed.
Print Assumptions C30_bind_count.

(** a printed value contributes '?' to the bound text only through a bound string *)
Theorem C30_print_value_count_qm : forall v : bval, bval_in_range v ->
  count_qm (print_value v) = match v with BVarchar s | BCharacter s => count_qm s | _ => O end.
Proof. exact print_value_count_qm. Qed.
Print Assumptions C30_print_value_count_qm.

(** f64::to_string (Dragon4 shortest digits): for EVERY finite binary64 the digit generation terminates
    within its fuel with decimal digits, and the text is a plain literal (digits, at most one '.', an
    optional leading '-'): no quote, no second '-' *)
Theorem C30_float_digits : forall (b m mi pl e : Z) (incl : bool), 0 <= b < two64 ->
  f64_decode b = DFinite m mi pl e incl ->
  exists (ds : list Z) (k : Z), dragon_shortest m mi pl e incl = Some (ds, k) /\ Forall digit_ok ds /\ ds <> [].
Proof. exact fmt_digits_ok. Qed.
Print Assumptions C30_float_digits.

Theorem C30_float_text_plain : forall b : Z, 0 <= b < two64 -> f64_finite b = true -> plain_ok (fmt_f64 b) = true.
Proof. exact fmt_f64_plain. Qed.
Print Assumptions C30_float_text_plain.

(** quoting lemma: a string printed with doubled quotes is read back as one literal with that content *)
Theorem C30_quote_rescans : forall s : text, read_literal (quote s) = Some (RStr s).
Proof. exact read_literal_quote. Qed.
Print Assumptions C30_quote_rescans.

(** * the coded binder against the literal-aware binder: equal for EVERY tuple when no '?' is protected
    (the value side condition went away with the reject repair) *)
Theorem C30_bind_eq_spec : forall (sql : text) (ps : list pyval),
  count_protected_qm SCode sql = O -> bind_now sql ps = bind_spec sql ps.
Proof. exact bind_now_eq_spec. Qed.
Print Assumptions C30_bind_eq_spec.

(** * parameter values never alter the statement's structure ... outside two merge situations
    (still broken: known class bound-literal-merges-with-neighbour) *)
Theorem C30_structure_preserved : forall (sql : text) (vals : list bval),
  count_protected_qm SCode sql = O -> count_qm sql = length vals ->
  safe sql (map lit_of_bval vals) = true ->
  tscan SCode (substitute sql vals) = splice_t (tscan SCode sql) (map lit_of_bval vals).
Proof. exact structure_preserved. Qed.
Print Assumptions C30_structure_preserved.

(** the lock-step condition is exact (for literals a binder can emit: quoted strings, plain words) *)
Theorem C30_structure_preserved_iff : forall (sql : text) (ls : list slit), plain_lits_ok ls ->
  (safe sql ls = true <-> tscan SCode (splice SCode sql ls) = splice_t (tscan SCode sql) ls).
Proof. exact structure_preserved_iff. Qed.
Print Assumptions C30_structure_preserved_iff.

Theorem C30_structure_refuted_dash : exists (sql : text) (vals : list bval),
  count_protected_qm SCode sql = O /\ count_qm sql = length vals /\
  tscan SCode (substitute sql vals) <> splice_t (tscan SCode sql) (map lit_of_bval vals).
Proof. exact structure_refuted_dash. Qed.
Print Assumptions C30_structure_refuted_dash.

Theorem C30_structure_refuted_quote : exists (sql : text) (vals : list bval),
  count_protected_qm SCode sql = O /\ count_qm sql = length vals /\
  tscan SCode (substitute sql vals) <> splice_t (tscan SCode sql) (map lit_of_bval vals).
Proof. exact structure_refuted_quote. Qed.
Print Assumptions C30_structure_refuted_quote.

(** the remaining repair: with every literal between spaces the structure is preserved for EVERY template
    and EVERY list of binder literals, and the repaired binder writes the specification's literals *)
Theorem C30_structure_preserved_padded : forall (sql : text) (ls : list slit), plain_lits_ok ls ->
  tscan SCode (splice_pad SCode sql ls) = splice_t_pad (tscan SCode sql) ls.
Proof. exact structure_preserved_padded. Qed.
Print Assumptions C30_structure_preserved_padded.

Theorem C30_bind_fixed_spec : forall (sql : text) (ps : list pyval),
  match bind_spec sql ps, bind_parameters_v true true sql ps with
  | Some t, Some t' => exists ls, slits_of_py ps = Some ls /\ t = splice SCode sql ls /\ t' = splice_pad SCode sql ls
  | None, None => True
  | _, _ => False
  end.
Proof. exact bind_fixed_spec. Qed.
Print Assumptions C30_bind_fixed_spec.

(** * the statement cache *)

(** keyed by the BOUND text the cache is invisible: every binder, call sequence, capacity *)
Theorem C30_cache_transparent_cursor :
  forall (stmt D res : Type) (parse : text -> option stmt) (kind : stmt -> skind)
         (exec : D -> stmt -> D * option res) (cap : nat)
         (binder : text -> option (list pyval) -> option text)
         (calls : list (text * option (list pyval))) (d : D) (c : cursor stmt res),
    parsed_keys stmt parse (cache c) ->
    let '(os, d', c') := run_fixed stmt D res parse kind exec cap binder d c calls in
    run_plain stmt D res parse kind exec binder d (last c) calls = (os, d', last c').
Proof. exact cache_transparent_fixed. Qed.
Print Assumptions C30_cache_transparent_cursor.

(** the code as it is now: earlier calls never influence later ones - every history is the cache-free
    run of the same binder *)
Theorem C30_cache_transparent_now :
  forall (stmt D res : Type) (parse : text -> option stmt) (kind : stmt -> skind)
         (exec : D -> stmt -> D * option res) (cap : nat)
         (calls : list (text * option (list pyval))) (d : D),
    let '(os, d', c') := run_now stmt D res parse kind exec cap d new_cursor calls in
    run_plain stmt D res parse kind exec process_now d None calls = (os, d', last c').
Proof. exact cache_transparent_now. Qed.
Print Assumptions C30_cache_transparent_now.

Theorem C30_cache_size_bound :
  forall (stmt D res : Type) (parse : text -> option stmt) (kind : stmt -> skind)
         (exec : D -> stmt -> D * option res) (cap : nat) (d : D) (c : cursor stmt res)
         (sql : text) (ps : option (list pyval)) (d' : D) (c' : cursor stmt res) (o : outcome res),
    (length (cache c) <= cap)%nat ->
    execute_now stmt D res parse kind exec cap d c sql ps = (d', c', o) ->
    (length (cache c') <= cap)%nat.
Proof. exact cache_size_bound_now. Qed.
Print Assumptions C30_cache_size_bound.

(** * the property *)

(** the code as it is now: true for EVERY history whose parameterised texts have no '?' in a protected
    region - no condition on repeated texts, none on the values *)
Theorem C30_binding_faithful :
  forall (stmt D res : Type) (parse : text -> option stmt) (kind : stmt -> skind)
         (exec : D -> stmt -> D * option res) (cap : nat)
         (calls : list (text * option (list pyval))) (d : D),
    Forall clean_now calls ->
    let '(os, d', c') := run_now stmt D res parse kind exec cap d new_cursor calls in
    run_spec stmt D res parse kind exec d calls = (os, d', last c').
Proof. exact binding_faithful_now. Qed.
Print Assumptions C30_binding_faithful.

(** with the remaining repair as well (literal-aware binder): every history, no side condition *)
Theorem C30_binding_faithful_fixed :
  forall (stmt D res : Type) (parse : text -> option stmt) (kind : stmt -> skind)
         (exec : D -> stmt -> D * option res) (cap : nat)
         (calls : list (text * option (list pyval))) (d : D),
    let '(os, d', c') := run_fixed stmt D res parse kind exec cap process_spec d new_cursor calls in
    run_spec stmt D res parse kind exec d calls = (os, d', last c').
Proof. exact binding_faithful_fixed. Qed.
Print Assumptions C30_binding_faithful_fixed.

(** the unconditional statement is still false of the code as it is now *)
Theorem C30_binding_faithful_refuted :
  ~ (forall (stmt D res : Type) (parse : text -> option stmt) (kind : stmt -> skind)
            (exec : D -> stmt -> D * option res) (cap : nat) (calls : list (text * option (list pyval))) (d : D),
       fst (fst (run_now stmt D res parse kind exec cap d new_cursor calls))
       = fst (fst (run_spec stmt D res parse kind exec d calls))).
Proof. exact binding_faithful_now_unconditional_refuted. Qed.
Print Assumptions C30_binding_faithful_refuted.

(** witness (known class placeholder-inside-string-literal) *)
Theorem C30_binding_refuted_literal :
  let calls := [(sel_quoted_q, Some [PInt 5])] in
  echo_now calls = [OOk (sel_lit [39; 53; 39])] /\ echo_spec calls = [OProgBind].
Proof. exact binding_now_refuted_literal. Qed.
Print Assumptions C30_binding_refuted_literal.

Theorem C30_binding_refuted_literal_count :
  let calls := [(sel_quoted_q, Some [])] in
  echo_now calls = [OProgBind] /\ echo_spec calls = [OOk sel_quoted_q].
Proof. exact binding_now_refuted_literal_count. Qed.
Print Assumptions C30_binding_refuted_literal_count.

(** the former witnesses of the two repaired classes now satisfy the property (fixed:
    stmt-cache-replays-first-parameters, nonfinite-float-bound-as-identifier) *)
Theorem C30_cache_witness_repaired :
  let calls := [(sel_q, Some [PInt 1]); (sel_q, Some [PInt 2]); (sel_q, Some []); (sel_q, None)] in
  echo_now calls = [OOk (sel_lit [49]); OOk (sel_lit [50]); OProgBind; OOk sel_q] /\
  echo_now calls = echo_spec calls.
Proof. exact cache_witness_repaired. Qed.
Print Assumptions C30_cache_witness_repaired.

Theorem C30_nonfinite_witness_repaired :
  let calls := [(sel_q, Some [PFloat inf_bits])] in
  echo_now calls = [OProgBind] /\ echo_now calls = echo_spec calls.
Proof. exact nonfinite_witness_repaired. Qed.
Print Assumptions C30_nonfinite_witness_repaired.

(** * values read back *)
Theorem C30_value_roundtrip_py : forall (v : pyval) (r : rval), py_expected v = Some r -> read_back_now v = Some r.
Proof. exact value_roundtrip_now. Qed.
Print Assumptions C30_value_roundtrip_py.

(** i64::MIN keeps its value but comes back as a float *)
Theorem C30_value_roundtrip_i64_min : read_back_now (PInt i64_min) = Some (RFloat 14114281232179134464).
Proof. exact roundtrip_i64_min_now. Qed.
Print Assumptions C30_value_roundtrip_i64_min.

(** fixed: int-beyond-i64-rounded-to-double - such ints are refused, not altered *)
Theorem C30_big_int_refused : forall z : Z, in_i64 z = false ->
  py_to_sqlvalue_r (PInt z) = None /\ read_back_now (PInt z) = None.
Proof. exact big_int_refused. Qed.
Print Assumptions C30_big_int_refused.

(** fixed: nonfinite-float-bound-as-identifier - infinities and NaN are refused *)
Theorem C30_nonfinite_refused : forall b : Z, f64_finite b = false ->
  py_to_sqlvalue_r (PFloat b) = None /\ read_back_now (PFloat b) = None.
Proof. exact nonfinite_refused. Qed.
Print Assumptions C30_nonfinite_refused.

(** * floats: printer (Dragon4) and reader (nearest-even) proved against each other *)

(** the decimal Dragon4 produces lies in the rounding interval of the float (bounds included exactly when
    the algorithm was told so) *)
Theorem C30_dragon_in_interval : forall (m mi pl e : Z) (incl : bool) (ds : list Z) (k : Z),
  2 <= m -> m + pl <= 2 ^ 55 -> 0 < mi -> 0 < pl -> -1077 <= e <= 970 ->
  dragon_shortest m mi pl e incl = Some (ds, k) ->
  let j := k - Z.of_nat (length ds) in
  within incl (m - mi) e (m + pl) e (fst (dec_ratio (dv ds) j)) (snd (dec_ratio (dv ds) j)).
Proof. exact dragon_in_interval. Qed.
Print Assumptions C30_dragon_in_interval.

(** Dragon4 stops after at most 18 rounds: at most 19 digits, at most 421 fraction digits *)
Theorem C30_dragon_digit_count : forall (m mi pl e : Z) (incl : bool) (ds : list Z) (k : Z),
  2 <= m -> m + pl <= 2 ^ 55 -> 0 < mi -> 0 < pl -> -1077 <= e <= 970 ->
  dragon_shortest m mi pl e incl = Some (ds, k) ->
  (length ds <= 19)%nat /\ -421 <= k - Z.of_nat (length ds).
Proof. exact dragon_digit_count. Qed.
Print Assumptions C30_dragon_digit_count.

(** the reader returns b for every rational in the rounding interval flt2dec::decode gives for b *)
Theorem C30_reader_rounds_to_nearest : forall (b n d mant minus plus exp : Z) (incl : bool),
  0 < b < two63 -> f64_decode b = DFinite mant minus plus exp incl ->
  (f64_expf b = 0 -> Z.even (f64_frac b) = true) ->
  0 < n -> 0 < d ->
  within incl (mant - minus) exp (mant + plus) exp n d ->
  f64_of_ratio n d = b.
Proof. exact f64_of_ratio_decoded. Qed.
Print Assumptions C30_reader_rounds_to_nearest.

(** EVERY finite float is read back as the same double: as a Numeric double, or as the integer literal
    whose binary64 conversion is that double (integral floats print without a '.'); the sign of zero is
    lost.  (Subnormals with an odd mantissa need an extra argument: flt2dec::decode marks the interval of
    every subnormal as inclusive, the reader resolves the end points of an odd mantissa away from it; but
    an end point is an odd multiple of 2^-1075 and the printed decimal has at most 421 fraction digits.) *)
Theorem C30_float_roundtrip : forall b : Z, 0 <= b < two64 -> f64_finite b = true ->
  exists r : rval, read_back_now (PFloat b) = Some r /\ as_double r = Some (if f64_is_zero b then 0 else b).
Proof. exact float_roundtrip_now. Qed.
Print Assumptions C30_float_roundtrip.
