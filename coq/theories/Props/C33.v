(** C33 — Schema changes keep catalog, storage and indexes consistent.
    Only pinned statements, each closed by [exact] of a lemma proved in Store/Catalog*.v.

    [Agree s]: in default mode, every listed table is stored under "public.<name>" and vice versa, the
    catalog's schema copy equals the stored table's (with a coherent column cache), rows have the
    schema's width, the catalog index registry and the storage index registry describe the same
    indexes, every index names a listed table and existing columns, and the index entries mirror
    the rows.  [wf_stmt]: the identifiers are ones the parser can deliver (no dot inside a name part).
    [known s st]: [st] belongs, in state [s], to one of the defect classes of known.d/C33.txt. *)
From Coq Require Import List ZArith Bool.
From VibeSQL Require Import Store.Catalog Store.CatalogBase Store.CatalogInv Store.CatalogIdx
  Store.CatalogStepA Store.CatalogStepB Store.CatalogLaws Store.CatalogWitness Store.CatalogSites.
Import ListNotations.
Open Scope Z_scope.

(* ---------------------------------------------------------------- the invariant and its preservation *)

Theorem C33_agree_init : Agree init.
Proof. exact agree_init. Qed.
Print Assumptions C33_agree_init.

Theorem C33_agree_step : forall s st, Agree s -> wf_stmt st = true -> known s st = false -> Agree (step_state s st).
Proof. exact agree_step. Qed.
Print Assumptions C33_agree_step.

(** lifted to every history whose statements stay outside the known classes *)
Theorem C33_agree_history : forall h, clean h init -> Agree (run h init).
Proof. exact agree_history. Qed.
Print Assumptions C33_agree_history.

(** an agreeing state never makes a statement panic (nor depend on HashMap order), known class or not *)
Theorem C33_no_panic : forall s st, Agree s -> wf_stmt st = true -> no_panic (snd (step s st)).
Proof. exact agree_no_panic. Qed.
Print Assumptions C33_no_panic.

Theorem C33_clean_history_no_panic : forall h s, Agree s -> clean h s -> Forall no_panic (results h s).
Proof. exact clean_history_no_panic. Qed.
Print Assumptions C33_clean_history_no_panic.

(* ---------------------------------------------------------------- what Agree gives *)

Theorem C33_listed_iff_stored : forall s t, Agree s -> (listed s t <-> stored s t).
Proof. exact agree_listed_iff_stored. Qed.
Print Assumptions C33_listed_iff_stored.

(** every listed table is queryable with its declared columns *)
Theorem C33_listed_queryable : forall s t sc, Agree s -> alookup t (s_cat s) = Some sc ->
  exists rows, obs_select s t = Some rows /\
    Forall (fun r => length r = length (ts_cols sc)) rows /\
    forall c, In c (col_names sc) -> exists i, get_column_index sc c = Some i /\ Forall (fun r => nth_error r i <> None) rows.
Proof. exact listed_queryable. Qed.
Print Assumptions C33_listed_queryable.

Theorem C33_unlisted_has_no_index : forall s t, Agree s -> amem t (s_cat s) = false ->
  (forall k c, alookup k (s_cidx s) = Some c -> ci_table c <> t) /\
  (forall k x, alookup k (s_sidx s) = Some x -> si_table x <> t).
Proof. exact unlisted_has_no_index. Qed.
Print Assumptions C33_unlisted_has_no_index.

(** index-driven lookups: in an agreeing state the entry under a key lists exactly the positions of
    the rows carrying that key (ascending) -- the mirror of C15, here a consequence of Agree *)
Theorem C33_index_entries_exact : forall s k x tb key, Agree s ->
  alookup k (s_sidx s) = Some x -> alookup (qual public (si_table x)) (s_tabs s) = Some tb ->
  dget key (si_data x) = matching_positions (t_schema tb) (si_cols x) key (t_rows tb) 0.
Proof. exact index_entries_exact. Qed.
Print Assumptions C33_index_entries_exact.

Theorem C33_index_has_table : forall s k x, Agree s -> alookup k (s_sidx s) = Some x ->
  exists sc rows, alookup (si_table x) (s_cat s) = Some sc /\
                  alookup (qual public (si_table x)) (s_tabs s) = Some (mktab sc rows) /\
                  forall c, In c (si_cols x) -> In c (col_names sc).
Proof. exact index_has_table. Qed.
Print Assumptions C33_index_has_table.

(** dropped tables leave no indexes behind *)
Theorem C33_drop_leaves_nothing : forall s tn ie, Agree s -> wf_qname tn = true -> known s (DropTable tn ie) = false ->
  cat_table_exists s tn = true ->
  let t := match split_dot tn with Some (_, t) => t | None => tn end in
  let s' := step_state s (DropTable tn ie) in
  snd (step s (DropTable tn ie)) = ROk 0 /\
  amem t (s_cat s') = false /\ amem (qual public t) (s_tabs s') = false /\
  ((upper t = t \/ ~ listed s' (upper t)) -> obs_select s' t = None) /\
  (forall k c, alookup k (s_cidx s') = Some c -> ci_table c <> t) /\
  (forall k x, alookup k (s_sidx s') = Some x -> si_table x <> t).
Proof. exact drop_leaves_nothing. Qed.
Print Assumptions C33_drop_leaves_nothing.

(** a (re-)created table starts empty with no index entries *)
Theorem C33_recreate_is_empty : forall s tn cols pk, Agree s -> wf_qname tn = true ->
  is_ok (snd (step s (CreateTable tn cols pk))) = true ->
  let t := match split_dot tn with Some (_, t) => t | None => tn end in
  let s' := step_state s (CreateTable tn cols pk) in
  listed s' t /\ obs_select s' t = Some [] /\
  (forall k c, alookup k (s_cidx s') = Some c -> ci_table c <> t) /\
  (forall k x, alookup k (s_sidx s') = Some x -> si_table x <> t).
Proof. exact recreate_is_empty. Qed.
Print Assumptions C33_recreate_is_empty.

(* ---------------------------------------------------------------- existing data in retained columns is unchanged
   (these hold in EVERY state, agreeing or not) *)

Theorem C33_retained_add_column : forall s tn c k tb,
  tab_find_key s tn = Some k -> alookup k (s_tabs s) = Some tb ->
  Forall (fun r => length r = length (ts_cols (t_schema tb))) (t_rows tb) ->
  let s' := step_state s (AddColumn tn c) in
  others_untouched s s' k /\
  exists tb', alookup k (s_tabs s') = Some tb' /\
    forall j, (j < length (ts_cols (t_schema tb)))%nat -> col_data tb' j = col_data tb j.
Proof. exact retained_add_column. Qed.
Print Assumptions C33_retained_add_column.

Theorem C33_retained_drop_column : forall s tn cn ie k tb,
  tab_find_key s tn = Some k -> alookup k (s_tabs s) = Some tb ->
  let s' := step_state s (DropColumn tn cn ie) in
  others_untouched s s' k /\
  exists tb', alookup k (s_tabs s') = Some tb' /\
    (tb' = tb \/
     exists i, get_column_index (t_schema tb) cn = Some i /\
               length (t_rows tb') = length (t_rows tb) /\
               forall j, j <> i -> col_data tb' (shift i j) = col_data tb j).
Proof. exact retained_drop_column. Qed.
Print Assumptions C33_retained_drop_column.

(** ... and with a coherent cache (every agreeing state) the removed position carries the named column *)
Theorem C33_resolved_column_is_named : forall sc cn i, cache_ok sc -> get_column_index sc cn = Some i ->
  exists col, nth_error (ts_cols sc) i = Some col /\ lower (c_name col) = lower cn.
Proof. exact resolved_column_is_named. Qed.
Print Assumptions C33_resolved_column_is_named.

(** without it the statement is false of the code: DROP COLUMN IF EXISTS B after CHANGE COLUMN B C drops C *)
Theorem C33_retained_drop_column_refuted :
  exists h, let s := run h init in
    (exists tb, alookup (qual public nT0) (s_tabs s) = Some tb /\ col_names (t_schema tb) = [nA; nC] /\ t_rows tb = [[Some 1; Some 10]]) /\
    snd (step s (DropColumn nT0 nB true)) = ROk 0 /\
    exists tb', alookup (qual public nT0) (s_tabs (step_state s (DropColumn nT0 nB true))) = Some tb' /\
                col_names (t_schema tb') = [nA] /\ t_rows tb' = [[Some 1]].
Proof. exact retained_drop_column_refuted. Qed.
Print Assumptions C33_retained_drop_column_refuted.

Theorem C33_retained_column_alter : forall s st tn cn k tb, column_alter st = Some (tn, cn) ->
  tab_find_key s tn = Some k -> alookup k (s_tabs s) = Some tb ->
  let s' := step_state s st in
  others_untouched s s' k /\
  exists tb', alookup k (s_tabs s') = Some tb' /\ t_rows tb' = t_rows tb /\
    (tb' = tb \/ exists i, get_column_index (t_schema tb) cn = Some i /\
                           forall j, j <> i -> nth_error (ts_cols (t_schema tb')) j = nth_error (ts_cols (t_schema tb)) j).
Proof. exact retained_column_alter. Qed.
Print Assumptions C33_retained_column_alter.

(** ... and through the stale cache CHANGE COLUMN A B renames the column called E *)
Theorem C33_retained_column_alter_refuted :
  exists h, let s := run h init in
    (exists tb, alookup (qual public nT0) (s_tabs s) = Some tb /\ col_names (t_schema tb) = [[69]; nA]) /\
    snd (step s (ChangeColumn nT0 nA (mkcol nB true None))) = ROk 0 /\
    exists tb', alookup (qual public nT0) (s_tabs (step_state s (ChangeColumn nT0 nA (mkcol nB true None)))) = Some tb' /\
                col_names (t_schema tb') = [nB; nA].
Proof. exact retained_column_alter_refuted. Qed.
Print Assumptions C33_retained_column_alter_refuted.

Theorem C33_retained_constraint_alter : forall s st k0 tb0,
  (exists tn kd, st = AddConstraint tn kd) \/ (exists tn cn, st = DropConstraint tn cn) ->
  alookup k0 (s_tabs s) = Some tb0 ->
  exists tb', alookup k0 (s_tabs (step_state s st)) = Some tb' /\ t_rows tb' = t_rows tb0 /\
              ts_cols (t_schema tb') = ts_cols (t_schema tb0).
Proof. exact retained_constraint_alter. Qed.
Print Assumptions C33_retained_constraint_alter.

Theorem C33_rename_moves_all_rows : forall s tn new sc rows, Agree s ->
  wf_name tn = true -> wf_name new = true -> known s (RenameTable tn new) = false ->
  alookup tn (s_cat s) = Some sc -> tab_find_key s new = None ->
  alookup (qual public tn) (s_tabs s) = Some (mktab sc rows) ->
  forallb (not_null_ok (ts_cols sc)) rows = true ->
  let s' := step_state s (RenameTable tn new) in
  snd (step s (RenameTable tn new)) = ROk 0 /\ obs_select s' new = Some rows /\ amem tn (s_cat s') = false.
Proof. exact rename_moves_all_rows. Qed.
Print Assumptions C33_rename_moves_all_rows.

(** RENAME TO after ADD COLUMN .. NOT NULL (which stores NULLs): statement fails, the rows are gone *)
Theorem C33_rename_moves_all_rows_refuted :
  exists h, let s := run h init in
    obs_select s nT0 = Some [[Some 1; None]; [Some 2; None]] /\
    snd (step s (RenameTable nT0 nT1)) = RErr /\
    obs_select (step_state s (RenameTable nT0 nT1)) nT0 = None /\
    obs_select (step_state s (RenameTable nT0 nT1)) nT1 = Some [].
Proof. exact rename_moves_all_rows_refuted. Qed.
Print Assumptions C33_rename_moves_all_rows_refuted.

(* ---------------------------------------------------------------- where agree_step fails: one witness per known class *)

Theorem C33_agree_step_add_column_refuted : exists h tn c, fails_at h (AddColumn tn c).
Proof. exact agree_step_add_column_refuted. Qed.
Print Assumptions C33_agree_step_add_column_refuted.

Theorem C33_agree_step_drop_column_refuted : exists h tn cn ie, fails_at h (DropColumn tn cn ie).
Proof. exact agree_step_drop_column_refuted. Qed.
Print Assumptions C33_agree_step_drop_column_refuted.

Theorem C33_agree_step_change_column_refuted : exists h tn old c, fails_at h (ChangeColumn tn old c).
Proof. exact agree_step_change_column_refuted. Qed.
Print Assumptions C33_agree_step_change_column_refuted.

Theorem C33_agree_step_modify_column_refuted : exists h tn cn nl d, fails_at h (ModifyColumn tn cn nl d).
Proof. exact agree_step_modify_column_refuted. Qed.
Print Assumptions C33_agree_step_modify_column_refuted.

Theorem C33_agree_step_set_default_refuted : exists h tn cn d, fails_at h (SetDefault tn cn d).
Proof. exact agree_step_set_default_refuted. Qed.
Print Assumptions C33_agree_step_set_default_refuted.

Theorem C33_agree_step_drop_default_refuted : exists h tn cn, fails_at h (DropDefault tn cn).
Proof. exact agree_step_drop_default_refuted. Qed.
Print Assumptions C33_agree_step_drop_default_refuted.

Theorem C33_agree_step_set_not_null_refuted : exists h tn cn, fails_at h (SetNotNull tn cn).
Proof. exact agree_step_set_not_null_refuted. Qed.
Print Assumptions C33_agree_step_set_not_null_refuted.

Theorem C33_agree_step_drop_not_null_refuted : exists h tn cn, fails_at h (DropNotNull tn cn).
Proof. exact agree_step_drop_not_null_refuted. Qed.
Print Assumptions C33_agree_step_drop_not_null_refuted.

Theorem C33_agree_step_add_check_refuted : exists h tn cn col, fails_at h (AddConstraint tn (KCheck cn col)).
Proof. exact agree_step_add_check_refuted. Qed.
Print Assumptions C33_agree_step_add_check_refuted.

Theorem C33_agree_step_constraint_case_variant_refuted : exists h tn cols, fails_at h (AddConstraint tn (KUnique cols)).
Proof. exact agree_step_constraint_case_variant_refuted. Qed.
Print Assumptions C33_agree_step_constraint_case_variant_refuted.

Theorem C33_agree_step_drop_table_qualified_refuted : exists h tn ie, has_dot tn = true /\ fails_at h (DropTable tn ie).
Proof. exact agree_step_drop_table_qualified_refuted. Qed.
Print Assumptions C33_agree_step_drop_table_qualified_refuted.

Theorem C33_agree_step_rename_table_refuted : exists h tn new, fails_at h (RenameTable tn new).
Proof. exact agree_step_rename_table_refuted. Qed.
Print Assumptions C33_agree_step_rename_table_refuted.

Theorem C33_agree_step_drop_index_case_refuted : exists h i ie, fails_at h (DropIndex i ie).
Proof. exact agree_step_drop_index_case_refuted. Qed.
Print Assumptions C33_agree_step_drop_index_case_refuted.

Theorem C33_agree_step_truncate_qualified_refuted : exists h tn, has_dot tn = true /\ fails_at h (Truncate tn).
Proof. exact agree_step_truncate_qualified_refuted. Qed.
Print Assumptions C33_agree_step_truncate_qualified_refuted.

(** after DROP TABLE "public".T0 the index, with its entries, is inherited by a new table T0 *)
Theorem C33_recreate_is_empty_refuted :
  exists h, let s := run h init in
    obs_select s nT0 = Some [] /\
    exists x, alookup nIX (s_sidx s) = Some x /\ si_table x = nT0 /\ si_data x <> [].
Proof. exact recreate_is_empty_refuted. Qed.
Print Assumptions C33_recreate_is_empty_refuted.

(** DROP COLUMN of an indexed column leaves the index naming a column that is gone ... *)
Theorem C33_drop_column_leaves_index :
  exists h st, clean h init /\ known (run h init) st = true /\
    let s := step_state (run h init) st in
    exists x tb, alookup nIX (s_sidx s) = Some x /\ alookup (qual public nT0) (s_tabs s) = Some tb /\
                 forallb (fun c => mem_name c (col_names (t_schema tb))) (si_cols x) = false.
Proof. exact drop_column_leaves_index. Qed.
Print Assumptions C33_drop_column_leaves_index.

Theorem C33_change_column_leaves_index :
  exists h st, clean h init /\ known (run h init) st = true /\
    let s := step_state (run h init) st in
    exists x tb, alookup nIX (s_sidx s) = Some x /\ alookup (qual public nT0) (s_tabs s) = Some tb /\
                 forallb (fun c => mem_name c (col_names (t_schema tb))) (si_cols x) = false.
Proof. exact change_column_leaves_index. Qed.
Print Assumptions C33_change_column_leaves_index.

(** ... and the next DML or index DDL on the table panics *)
Theorem C33_panic_after_drop_column_delete :
  snd (step (run [mkT0; Insert nT0 [[1; 10]]; Insert nT0 [[2; 20]]; mkIX; DropColumn nT0 nB false] init)
            (Delete nT0 (Some (nA, 1)))) = RPanic.
Proof. exact panic_after_drop_column_delete. Qed.
Print Assumptions C33_panic_after_drop_column_delete.

Theorem C33_panic_after_drop_column_insert :
  snd (step (run [mkT0; Insert nT0 [[1; 10]]; mkIX; DropColumn nT0 nB false; AddConstraint nT0 (KUnique [nA])] init)
            (Insert nT0 [[2]])) = RPanic.
Proof. exact panic_after_drop_column_insert. Qed.
Print Assumptions C33_panic_after_drop_column_insert.

Theorem C33_panic_after_drop_column_create_index :
  snd (step (run [mkT0; Insert nT0 [[1; 10]]; DropColumn nT0 nB false] init)
            (CreateIndex nIX nT0 false [nB] false)) = RPanic.
Proof. exact panic_after_drop_column_create_index. Qed.
Print Assumptions C33_panic_after_drop_column_create_index.

(** non-default mode (case-insensitive identifiers): the index created ON "t0" is not maintained by INSERT INTO T0 *)
Theorem C33_case_insensitive_mode_mirror_refuted :
  exists h, let s := run h init_ci in
    exists x tb, alookup nIX (s_sidx s) = Some x /\ alookup (qual public nT0) (s_tabs s) = Some tb /\
      t_rows tb = [[Some 1; Some 10]] /\ si_data x = [].
Proof. exact case_insensitive_mode_mirror_refuted. Qed.
Print Assumptions C33_case_insensitive_mode_mirror_refuted.

(* ---------------------------------------------------------------- the string-equality joins: call sites and the form each passes *)

Theorem C33_site_table :
  consistent_sites = [CreateIndexStorage; CreateIndexCatalog; InsertUniqueProbe; InsertMaintain; UpdateMaintain; DeleteRebuild] /\
  inconsistent_sites = [InsertPhase5; TruncateRebuild; DropTableCatalogIndexes; DropTableStorageIndexes; RenameStorageIndexes; SelectIndexChoice].
Proof. exact site_table. Qed.
Print Assumptions C33_site_table.

Theorem C33_consistent_sound : forall x n stored, consistent x = true -> accepts_name (site_syntax x) n ->
  site_matches (site_form x) n stored = name_eqb stored (unqualified n).
Proof. exact consistent_sound. Qed.
Print Assumptions C33_consistent_sound.

Theorem C33_drop_table_storage_site_dead : forall n stored, has_dot stored = false ->
  site_matches QualifiedNorm n stored = false.
Proof. exact drop_table_storage_site_dead. Qed.
Print Assumptions C33_drop_table_storage_site_dead.

Theorem C33_as_written_site_misses_qualified :
  accepts_name MaybeQualified qT0 /\ unqualified qT0 = T0 /\ site_matches AsWritten qT0 T0 = false.
Proof. exact as_written_site_misses_qualified. Qed.
Print Assumptions C33_as_written_site_misses_qualified.

Theorem C33_upper_site_confuses_case_variants :
  T0 <> t0 /\ site_matches UpperBoth T0 t0 = true /\ site_matches UpperBoth t0 T0 = true.
Proof. exact upper_site_confuses_case_variants. Qed.
Print Assumptions C33_upper_site_confuses_case_variants.

Theorem C33_model_drop_table_site : forall s n,
  s_sidx (fst (ops_drop_table s n)) =
  filter (fun p => negb (site_matches QualifiedNorm (cat_norm s n) (si_table (snd p)))) (s_sidx s).
Proof. exact model_drop_table_site. Qed.
Print Assumptions C33_model_drop_table_site.
