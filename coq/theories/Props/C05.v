(** C05 — Join ordering, join algorithms and subquery rewrites preserve query meaning.
    Reference side: comma joins commute, an inner join is a filter of the cross product, IN is EXISTS,
    NOT IN is the NULL-aware anti join and coincides with NOT EXISTS exactly when no NULL is involved.
    Mechanism side: the hash join / hash semi join / hash anti join (hash table built by insertion,
    NULL keys skipped) equal the definitional nested-loop evaluation for every input.
    Only pinned statements, each closed by [exact]. *)
From Coq Require Import List ZArith Bool Permutation.
From VibeSQL Require Import Sem.Syntax Sem.Rel Sem.Eval Sem.Laws Mech.Join Mech.JoinLaws.
Import ListNotations.

Theorem C05_comma_join_perm : forall l r : list row, Permutation (cross l r) (cross_swapped l r).
Proof. exact comma_join_perm. Qed.
Print Assumptions C05_comma_join_perm.

Theorem C05_inner_join_as_filter : forall (c : row -> bool) (l r : list row),
  nested_loop_join (fun x y => c (x ++ y)) l r = filter c (cross l r).
Proof. exact inner_join_as_filter. Qed.
Print Assumptions C05_inner_join_as_filter.

Theorem C05_hash_table_is_multimap : forall (kr : row -> value) (k : value) (r : list row),
  is_null k = false -> ht_lookup k (ht_build kr r) = filter (fun y => key_eq k (kr y)) r.
Proof. exact ht_lookup_build. Qed.
Print Assumptions C05_hash_table_is_multimap.

Theorem C05_hash_join_eq_nested : forall (kl kr : row -> value) (l r : list row),
  hash_join kl kr l r = nested_loop_join (fun x y => key_eq (kl x) (kr y)) l r.
Proof. exact hash_join_eq_nested. Qed.
Print Assumptions C05_hash_join_eq_nested.

Theorem C05_hash_semi_join_eq_nested : forall (kl kr : row -> value) (l r : list row),
  hash_semi_join kl kr l r = nested_semi_join (fun x y => key_eq (kl x) (kr y)) l r.
Proof. exact hash_semi_join_eq_nested. Qed.
Print Assumptions C05_hash_semi_join_eq_nested.

Theorem C05_hash_anti_join_eq_nested : forall (kl kr : row -> value) (l r : list row),
  hash_anti_join kl kr l r = nested_anti_join (fun x y => key_eq (kl x) (kr y)) l r.
Proof. exact hash_anti_join_eq_nested. Qed.
Print Assumptions C05_hash_anti_join_eq_nested.

Theorem C05_in_exists_equiv : forall (x : value) (vs : list value) (sn : bool) (r : value),
  forallb (comparable x) vs = true -> in_values x vs sn = Ok r ->
  is_true r = existsb (key_eq x) vs.
Proof. exact in_exists_equiv. Qed.
Print Assumptions C05_in_exists_equiv.

Theorem C05_not_in_is_null_aware_anti_join : forall (kl kr : row -> value) (l r : list row),
  (forall x, In x l -> forallb (fun y => comparable (kl x) (kr y)) r = true) ->
  nested_anti_join (not_in_cond kl kr) l r = filter (fun x => not_in_true (kl x) (map kr r)) l.
Proof. exact not_in_is_null_aware_anti_join. Qed.
Print Assumptions C05_not_in_is_null_aware_anti_join.

Theorem C05_not_in_eq_not_exists_without_nulls : forall (kl kr : row -> value) (x : row) (r : list row),
  forallb (fun y => comparable (kl x) (kr y)) r = true ->
  is_null (kl x) = false -> forallb (fun y => negb (is_null (kr y))) r = true ->
  not_in_true (kl x) (map kr r) = negb (existsb (fun y => key_eq (kl x) (kr y)) r).
Proof. exact not_in_eq_not_exists_without_nulls. Qed.
Print Assumptions C05_not_in_eq_not_exists_without_nulls.

(** NOT IN is not NOT EXISTS in general: with a NULL in the subquery NOT IN is not TRUE *)
Theorem C05_not_in_vs_not_exists_refuted :
  exists (x : value) (vs : list value),
    not_in_true x vs = false /\ negb (existsb (key_eq x) vs) = true.
Proof. exact not_in_vs_not_exists_refuted. Qed.
Print Assumptions C05_not_in_vs_not_exists_refuted.
