(** C18 — Native save/load round-trips the database.
    Only pinned statements, each closed by [exact] of a lemma proved elsewhere. *)
From Coq Require Import String List ZArith Bool.
From VibeSQL Require Import Value.SqlValue Codec.BinUtf8 Codec.BinDec Codec.BinPrim Codec.BinValue Codec.BinType
  Codec.BinFile Codec.BinCanon Codec.BinPrimLaws Codec.BinDecLaws Codec.BinValueLaws Codec.BinTypeLaws Codec.BinFileLaws Codec.BinRoundtripLaws Codec.JsonVal Codec.JsonValLaws.
Import ListNotations.
Open Scope Z_scope.

(** ** primitives (io.rs): little-endian write then read returns the value and the untouched rest *)
Theorem C18_u8_roundtrip : forall z rest, 0 <= z < 256 -> read_u8 (w_u8 z ++ rest) = ([], Ok z rest).
Proof. exact u8_roundtrip. Qed.
Print Assumptions C18_u8_roundtrip.

Theorem C18_u32_roundtrip : forall z rest, 0 <= z < 2 ^ 32 -> read_u32 (w_u32 z ++ rest) = ([], Ok z rest).
Proof. exact u32_roundtrip. Qed.
Print Assumptions C18_u32_roundtrip.

Theorem C18_u64_roundtrip : forall z rest, 0 <= z < 2 ^ 64 -> read_u64 (w_u64 z ++ rest) = ([], Ok z rest).
Proof. exact u64_roundtrip. Qed.
Print Assumptions C18_u64_roundtrip.

Theorem C18_i16_roundtrip : forall z rest, - 2 ^ 15 <= z < 2 ^ 15 -> read_i16 (w_i16 z ++ rest) = ([], Ok z rest).
Proof. exact i16_roundtrip. Qed.
Print Assumptions C18_i16_roundtrip.

Theorem C18_i64_roundtrip : forall z rest, - 2 ^ 63 <= z < 2 ^ 63 -> read_i64 (w_i64 z ++ rest) = ([], Ok z rest).
Proof. exact i64_roundtrip. Qed.
Print Assumptions C18_i64_roundtrip.

(** floats by bit pattern: every NaN payload, both zeros, both infinities *)
Theorem C18_f32_roundtrip : forall bits rest, 0 <= bits < 2 ^ 32 -> read_f32 (w_f32 bits ++ rest) = ([], Ok bits rest).
Proof. exact f32_roundtrip. Qed.
Print Assumptions C18_f32_roundtrip.

Theorem C18_f64_roundtrip : forall bits rest, 0 <= bits < 2 ^ 64 -> read_f64 (w_f64 bits ++ rest) = ([], Ok bits rest).
Proof. exact f64_roundtrip. Qed.
Print Assumptions C18_f64_roundtrip.

Theorem C18_bool_roundtrip : forall b rest, read_bool (w_bool b ++ rest) = ([], Ok b rest).
Proof. exact bool_roundtrip. Qed.
Print Assumptions C18_bool_roundtrip.

(** any valid UTF-8 string shorter than 4 GiB; the one allocation requested is exactly its length *)
Theorem C18_string_roundtrip : forall s rest,
  utf8_valid s = true -> blen s < 2 ^ 32 ->
  read_string (w_string s ++ rest) = ([Alloc (blen s)], Ok s rest).
Proof. exact string_roundtrip. Qed.
Print Assumptions C18_string_roundtrip.

(** ** type tags (format.rs), against the numerals regenerated from the source *)
Theorem C18_tag_roundtrip : forall k, tag_from_u8 (tag_byte k) = Some k.
Proof. exact tag_from_u8_tag_byte. Qed.
Print Assumptions C18_tag_roundtrip.

Theorem C18_tag_injective : forall k1 k2, tag_byte k1 = tag_byte k2 -> k1 = k2.
Proof. exact tag_byte_injective. Qed.
Print Assumptions C18_tag_injective.

(** ** values (value.rs): every well-formed value of every variant is read back identically, bit for
    bit, with the remaining input untouched.  Temporal values travel as text; that the temporal
    parsers take back what [Display] printed is the hypothesis [temporal_roundtrips] (property C22). *)
Theorem C18_value_roundtrip : forall E b rest,
  wf_bvalue b = true -> temporal_roundtrips E b ->
  snd (read_value E (write_value b ++ rest)) = Ok b rest.
Proof. exact value_roundtrip. Qed.
Print Assumptions C18_value_roundtrip.

(** ** column types travel as text (save.rs format_data_type / catalog.rs parse_data_type): the loader
    takes back exactly the [supported] types ... *)
Theorem C18_type_roundtrip : forall ty, supported ty = true -> parse_data_type (format_data_type ty) = POk ty.
Proof. exact type_roundtrip. Qed.
Print Assumptions C18_type_roundtrip.

(** ... and not the others: INTERVAL, CLOB, BLOB, BIT, user-defined names and NULL make the load fail,
    TIME WITH TIME ZONE and NAME silently become TIME and VARCHAR(128) *)
Theorem C18_type_roundtrip_refuted :
  parse_data_type (format_data_type (TInterval (lit "Day"))) = PErr
  /\ parse_data_type (format_data_type TClob) = PErr
  /\ parse_data_type (format_data_type TBlob) = PErr
  /\ parse_data_type (format_data_type (TBit None)) = PErr
  /\ parse_data_type (format_data_type (TUserDefined (lit "TINYINT"))) = PErr
  /\ parse_data_type (format_data_type TNull) = PErr
  /\ parse_data_type (format_data_type (TTime true)) = POk (TTime false)
  /\ parse_data_type (format_data_type TName) = POk (TVarchar (Some 128)).
Proof. exact type_roundtrip_refuted. Qed.
Print Assumptions C18_type_roundtrip_refuted.

(** ** whole file.  The database T(A) = {1,2,3} with index IA(A) -- the witness of the former empty-index
    defect -- now comes back from save_binary / load_binary with its three index entries: [read_data]
    rebuilds every user index from the loaded rows *)
Theorem C18_file_roundtrip_indexed :
  map (fun i => length (i_entries i)) (d_indexes db_indexed) = [3%nat]
  /\ load_result E0 (save_binary db_indexed) = Ok db_indexed [].
Proof. exact file_roundtrip_indexed. Qed.
Print Assumptions C18_file_roundtrip_indexed.

(** for EVERY database satisfying [wf_db] (BinRoundtripLaws.v: no triggers; schema/role/table/column/
    index names valid UTF-8 shorter than 4 GiB, unique, table names without a dot; every column type
    [supported]; at least one column per table; every stored row already in normal form
    ([normalize_row] is the identity on it), every value well-formed and -- for temporal values -- read
    back by the temporal parser; index names ASCII upper case and unique, index table and columns
    resolvable; counts below 2^32 / 2^64) and for every trailing content [extra]:
    loading the saved file returns all schemas, roles, tables, columns, types, nullability, rows (bit
    for bit, in order), index definitions AND index contents (rebuilt from the rows), and leaves
    [extra] unread *)
Theorem C18_file_roundtrip : forall E d extra,
  wf_db E d -> load_result E (save_binary d ++ extra) = Ok (with_indexes_built d) extra.
Proof. exact file_roundtrip. Qed.
Print Assumptions C18_file_roundtrip.

(** exactly the saved database when its index contents are the ones the storage layer maintains *)
Theorem C18_file_roundtrip_exact : forall E d extra,
  wf_db E d -> with_indexes_built d = d -> load_result E (save_binary d ++ extra) = Ok d extra.
Proof. exact file_roundtrip_exact. Qed.
Print Assumptions C18_file_roundtrip_exact.

(** ** JSON format, value mapping of json.rs ([sql_value_to_json] / [json_value_to_sql]) over an abstract
    JSON value (the text layer is serde_json's).  Every finite, well-typed, well-formed value comes back
    identically; the float conversions only need [narrow (widen b) = b] on finite f32 values *)
Theorem C18_json_value_roundtrip : forall E F ty v,
  (forall b, 0 <= b < 2 ^ 32 -> finite 32 b = true -> narrow F (widen F b) = b) ->
  typed ty v = true -> wf_bvalue v = true -> finite_value v = true -> temporal_roundtrips E v ->
  json_value_to_sql E F (sql_value_to_json F v) ty = POk v.
Proof. exact json_value_roundtrip. Qed.
Print Assumptions C18_json_value_roundtrip.

(** NaN and the infinities are written as JSON null and come back as NULL *)
Theorem C18_json_value_roundtrip_refuted : forall E F,
  json_value_to_sql E F (sql_value_to_json F (BV (VDouble 9221120237041090560))) TDouble = POk (BV VNull)
  /\ json_value_to_sql E F (sql_value_to_json F (BV (VDouble 9218868437227405312))) TDouble = POk (BV VNull)
  /\ json_value_to_sql E F (sql_value_to_json F (BV (VReal 4286578688))) TReal = POk (BV VNull).
Proof. exact json_value_roundtrip_refuted. Qed.
Print Assumptions C18_json_value_roundtrip_refuted.
