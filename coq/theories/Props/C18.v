(** C18 — Native save/load round-trips the database.
    Only pinned statements, each closed by [exact] of a lemma proved elsewhere. *)
From Coq Require Import String List ZArith Bool.
From VibeSQL Require Import Value.SqlValue Codec.BinUtf8 Codec.BinDec Codec.BinPrim Codec.BinValue Codec.BinType
  Codec.BinFile Codec.BinPrimLaws Codec.BinDecLaws Codec.BinValueLaws Codec.BinFileLaws.
Import ListNotations.
Open Scope Z_scope.

(** ** primitives (io.rs): little-endian write then read returns the value and the untouched rest *)
Theorem C18_u8_roundtrip : forall z rest, 0 <= z < 256 -> read_u8 (w_u8 z ++ rest) = ([], Ok z rest).
Proof. exact u8_roundtrip. Qed.
Print Assumptions C18_u8_roundtrip.

Theorem C18_u32_roundtrip : forall z rest, 0 <= z < 2 ^ 32 -> read_u32 (w_u32 z ++ rest) = ([], Ok z rest).
Proof. exact u32_roundtrip. Qed.
Print Assumptions C18_u32_roundtrip.

Theorem C18_u64_roundtrip : forall z rest, 0 <= z < 2 ^ 64 -> read_u64 (w_u64 z ++ rest) = ([], Ok z rest).
Proof. exact u64_roundtrip. Qed.
Print Assumptions C18_u64_roundtrip.

Theorem C18_i16_roundtrip : forall z rest, - 2 ^ 15 <= z < 2 ^ 15 -> read_i16 (w_i16 z ++ rest) = ([], Ok z rest).
Proof. exact i16_roundtrip. Qed.
Print Assumptions C18_i16_roundtrip.

Theorem C18_i64_roundtrip : forall z rest, - 2 ^ 63 <= z < 2 ^ 63 -> read_i64 (w_i64 z ++ rest) = ([], Ok z rest).
Proof. exact i64_roundtrip. Qed.
Print Assumptions C18_i64_roundtrip.

(** floats by bit pattern: every NaN payload, both zeros, both infinities *)
Theorem C18_f32_roundtrip : forall bits rest, 0 <= bits < 2 ^ 32 -> read_f32 (w_f32 bits ++ rest) = ([], Ok bits rest).
Proof. exact f32_roundtrip. Qed.
Print Assumptions C18_f32_roundtrip.

Theorem C18_f64_roundtrip : forall bits rest, 0 <= bits < 2 ^ 64 -> read_f64 (w_f64 bits ++ rest) = ([], Ok bits rest).
Proof. exact f64_roundtrip. Qed.
Print Assumptions C18_f64_roundtrip.

Theorem C18_bool_roundtrip : forall b rest, read_bool (w_bool b ++ rest) = ([], Ok b rest).
Proof. exact bool_roundtrip. Qed.
Print Assumptions C18_bool_roundtrip.

(** any valid UTF-8 string shorter than 4 GiB; the one allocation requested is exactly its length *)
Theorem C18_string_roundtrip : forall s rest,
  utf8_valid s = true -> blen s < 2 ^ 32 ->
  read_string (w_string s ++ rest) = ([Alloc (blen s)], Ok s rest).
Proof. exact string_roundtrip. Qed.
Print Assumptions C18_string_roundtrip.

(** ** type tags (format.rs), against the numerals regenerated from the source *)
Theorem C18_tag_roundtrip : forall k, tag_from_u8 (tag_byte k) = Some k.
Proof. exact tag_from_u8_tag_byte. Qed.
Print Assumptions C18_tag_roundtrip.

Theorem C18_tag_injective : forall k1 k2, tag_byte k1 = tag_byte k2 -> k1 = k2.
Proof. exact tag_byte_injective. Qed.
Print Assumptions C18_tag_injective.

(** ** values (value.rs): every well-formed value of every variant is read back identically, bit for
    bit, with the remaining input untouched.  Temporal values travel as text; that the temporal
    parsers take back what [Display] printed is the hypothesis [temporal_roundtrips] (property C22). *)
Theorem C18_value_roundtrip : forall E b rest,
  wf_bvalue b = true -> temporal_roundtrips E b ->
  snd (read_value E (write_value b ++ rest)) = Ok b rest.
Proof. exact value_roundtrip. Qed.
Print Assumptions C18_value_roundtrip.
