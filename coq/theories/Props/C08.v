(** C08 — ORDER BY, LIMIT/OFFSET and DISTINCT return correct sequences.
    Reference side: ORDER BY is a sorted permutation of its input under a total comparator with
    NULLs last in both directions; LIMIT n OFFSET m is the slice [m, m+n); DISTINCT keeps each row once.
    Mechanism side: the index scan's "already sorted" claim (kept only when no fetched row has a NULL
    sort key and all directions agree) is sound, and is unsound without either guard.
    Only pinned statements, each closed by [exact]. *)
From Coq Require Import List ZArith Bool Permutation Sorted.
From VibeSQL Require Import Sem.Syntax Sem.Rel Sem.Laws Mech.IndexOrder Mech.IndexOrderLaws.
From VibeSQL Require Import Sem.OrderLaws.
Import ListNotations.

Theorem C08_order_cmp_total : forall (ks : list (nat * bool)) (a b : row),
  row_le ks a b = true \/ row_le ks b a = true.
Proof. exact row_le_total. Qed.
Print Assumptions C08_order_cmp_total.

Theorem C08_sorted_and_perm : forall (ks : list (nat * bool)) (l : list row),
  Sorted (fun a b => row_le ks a b = true) (sort_rows (row_le ks) l)
  /\ Permutation l (sort_rows (row_le ks) l).
Proof. exact order_by_sorted_perm. Qed.
Print Assumptions C08_sorted_and_perm.

Theorem C08_nulls_last : forall (desc : bool) (v : value),
  v <> VNull -> key_compare desc v VNull = Lt /\ key_compare desc VNull v = Gt.
Proof. exact null_keys_last. Qed.
Print Assumptions C08_nulls_last.

Theorem C08_limit_offset_slice : forall (n m : nat) (l : list row),
  limit_offset (Some n) (Some m) l = firstn n (skipn m l).
Proof. exact limit_offset_slice. Qed.
Print Assumptions C08_limit_offset_slice.

Theorem C08_limit_offset_length : forall (n m : nat) (l : list row),
  length (limit_offset (Some n) (Some m) l) = Nat.min n (length l - m).
Proof. exact limit_offset_length. Qed.
Print Assumptions C08_limit_offset_length.

Theorem C08_limit_only : forall (n : nat) (l : list row), limit_offset (Some n) None l = firstn n l.
Proof. exact limit_only. Qed.
Print Assumptions C08_limit_only.

Theorem C08_offset_only : forall (m : nat) (l : list row), limit_offset None (Some m) l = skipn m l.
Proof. exact offset_only. Qed.
Print Assumptions C08_offset_only.

Theorem C08_distinct_once : forall l : list row,
  NoDup (distinct_rows l) /\ (forall r, In r (distinct_rows l) <-> In r l).
Proof. exact distinct_once. Qed.
Print Assumptions C08_distinct_once.

Theorem C08_index_order_agrees : forall (ks : list (nat * bool)) (l : list row),
  claim_sorted ks l = true ->
  sortedb (idx_le (map fst ks)) l = true ->
  sortedb (row_le ks) (index_order_output ks l) = true.
Proof. exact index_order_agrees. Qed.
Print Assumptions C08_index_order_agrees.

(** the two guards are necessary: the pre-repair behaviour (claim kept regardless) is refuted *)
Theorem C08_index_order_null_key_refuted :
  exists ks l, sortedb (idx_le (map fst ks)) l = true /\ sortedb (row_le ks) (index_order_output ks l) = false.
Proof. exact index_order_without_guard_refuted. Qed.
Print Assumptions C08_index_order_null_key_refuted.

Theorem C08_index_order_mixed_directions_refuted :
  exists ks l, no_null_keys (map fst ks) l = true /\ sortedb (idx_le (map fst ks)) l = true
               /\ sortedb (row_le ks) (index_order_output ks l) = false.
Proof. exact index_order_mixed_directions_refuted. Qed.
Print Assumptions C08_index_order_mixed_directions_refuted.

(** the comparator is transitive, and every sorted permutation of the input — however it is produced:
    sort, merged runs, index order — carries the key sequence of the reference sort: the returned
    sequence is determined wherever ORDER BY determines it *)
Theorem C08_row_le_trans : forall (ks : list (nat * bool)) (a b c : row),
  row_le ks a b = true -> row_le ks b c = true -> row_le ks a c = true.
Proof. exact row_le_trans. Qed.
Print Assumptions C08_row_le_trans.

Theorem C08_order_by_keys_determined : forall (ks : list (nat * bool)) (input result : list row),
  Sorted (fun a b => row_le ks a b = true) result -> Permutation input result ->
  map (keyvec ks) result = map (keyvec ks) (sort_rows (row_le ks) input).
Proof. exact any_sorted_perm_has_reference_keys. Qed.
Print Assumptions C08_order_by_keys_determined.
