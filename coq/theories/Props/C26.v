(** C26 — Access control is complete and follows the GRANT/REVOKE history.
    Only pinned statements, each closed by [exact] of a lemma proved in Store/PrivLaws.v or Store/PrivPathsLaws.v.
    Models: Store/Priv.v (catalog grants, GRANT/REVOKE/role executors, PrivilegeChecker, session state) and
    Store/PrivPaths.v (the access-path table of the executor). *)
From Coq Require Import List Bool String.
From VibeSQL Require Import Store.Priv Store.PrivLaws Store.PrivPaths Store.PrivPathsLaws Store.PrivCombinedLaws.
Import ListNotations.
Open Scope string_scope.

(** ** part 1: privileges follow the history *)

(** one operation: a role holds a privilege afterwards iff the operation granted it, or the role held it and
    the operation did not take it away.  [Grants] / [Kills] (Store/PrivLaws.v) say exactly which operations do:
    a successful GRANT naming the role, on the same object string, whose privilege list (ALL PRIVILEGES expanded
    by the ACTUAL object type) contains the privilege; a successful REVOKE without GRANT OPTION FOR on the same
    object string whose list (expanded by the STATEMENT's object type) contains the privilege, naming the role
    or - under CASCADE - a grantee from which the role is reachable along grantor->grantee edges for that
    privilege.  Privileges are compared with derive(PartialEq): SELECT and SELECT(col) are different. *)
Theorem C26_one_step : forall s o r obj q,
  has_privilege (fst (step s o)) r obj q = true <->
  Grants s o r obj q \/ (has_privilege s r obj q = true /\ ~ Kills s o r obj q).
Proof. exact one_step. Qed.
Print Assumptions C26_one_step.

(** the property over all histories (induction over the history) *)
Theorem C26_privilege_history : forall h s r obj q,
  has_privilege (exec s h) r obj q = true <->
  (has_privilege s r obj q = true /\ no_later_kill s [] h r obj q) \/
  (exists h1 o h2, h = (h1 ++ o :: h2)%list /\ Grants (exec s h1) o r obj q /\
                   no_later_kill s (h1 ++ [o]) h2 r obj q).
Proof. exact privilege_history. Qed.
Print Assumptions C26_privilege_history.

(** from an empty grant table ([Database::new()]): held iff some GRANT gave it and no later REVOKE matched it *)
Theorem C26_privilege_history_fresh : forall h s r obj q,
  st_grants s = [] ->
  (has_privilege (exec s h) r obj q = true <->
   exists h1 o h2, h = (h1 ++ o :: h2)%list /\ Grants (exec s h1) o r obj q /\
                   no_later_kill s (h1 ++ [o]) h2 r obj q).
Proof. exact privilege_history_fresh. Qed.
Print Assumptions C26_privilege_history_fresh.

(** what REVOKE ... CASCADE removes is exactly the part of the delegation graph reachable from the grantees:
    the recursive [revoke_cascade] (which mutates the table while it walks it, iterates over a stale dependents
    list and skips grantees already in its visited set) against the declarative [reach] *)
Theorem C26_exec_revoke_has : forall s gof privs ot obj grantees casc s',
  exec_revoke s gof privs ot obj grantees casc = (s', ROk) ->
  forall r o q, has_privilege s' r o q = true <->
                has_privilege s r o q = true /\
                ~ (gof = false /\ o = obj /\ revoke_hits obj (st_grants s) grantees (expand privs ot) casc r q).
Proof. exact exec_revoke_has. Qed.
Print Assumptions C26_exec_revoke_has.

Theorem C26_exec_grant_has : forall s privs ot obj grantees wgo s',
  exec_grant s privs ot obj grantees wgo = (s', ROk) ->
  forall r o q, has_privilege s' r o q = true <->
                has_privilege s r o q = true \/ grant_adds s privs ot obj grantees r o q.
Proof. exact exec_grant_has. Qed.
Print Assumptions C26_exec_grant_has.

(** a failed operation (error or crash) leaves the whole state as it was *)
Theorem C26_step_fail_unchanged : forall s o, snd (step s o) <> ROk -> fst (step s o) = s.
Proof. exact step_fail_unchanged. Qed.
Print Assumptions C26_step_fail_unchanged.

(** revoke_then_denied *)
Theorem C26_revoke_then_denied : forall s privs ot obj grantees casc s' r k,
  exec_revoke s false privs ot obj grantees casc = (s', ROk) ->
  In r grantees -> In (kind_priv k) (expand privs ot) -> is_admin r = false ->
  forall s'', s'' = set_security (set_role s' (Some r)) true ->
  step s'' (OCheck k obj) = (s'', RErr EPermissionDenied).
Proof. exact revoke_then_denied. Qed.
Print Assumptions C26_revoke_then_denied.

(** the check itself: security flag, ADMIN/DBA bypass, otherwise exactly [has_privilege] of the session role *)
Theorem C26_check_spec : forall s obj p,
  st_security s = true -> is_admin (current_role s) = false ->
  check_privilege s obj p = has_privilege s (current_role s) obj p.
Proof. exact check_spec. Qed.
Print Assumptions C26_check_spec.

Theorem C26_check_denied_changes_nothing : forall s k obj,
  check_privilege s obj (kind_priv k) = false -> step s (OCheck k obj) = (s, RErr EPermissionDenied).
Proof. exact check_denied_changes_nothing. Qed.
Print Assumptions C26_check_denied_changes_nothing.

(** without a GRANT nobody gains anything *)
Theorem C26_no_grant_no_gain : forall h s r obj q,
  forallb (fun o => negb (is_grant o)) h = true ->
  has_privilege (exec s h) r obj q = true -> has_privilege s r obj q = true.
Proof. exact no_grant_no_gain. Qed.
Print Assumptions C26_no_grant_no_gain.

(** GRANT needs authority (fix "grant-requires-authority"): a GRANT that succeeds under security for a
    non-administrator was covered, privilege by privilege, by a grant option of the session role *)
Theorem C26_grant_success_authorised : forall s privs ot obj grantees wgo s',
  exec_grant s privs ot obj grantees wgo = (s', ROk) ->
  st_security s = true -> is_admin (current_role s) = false ->
  exists actual, grant_object_check s privs ot obj = inl actual /\
  forall p, In p (expand privs actual) ->
    exists g, In g (st_grants s) /\ g_object g = obj /\ g_grantee g = current_role s /\ g_priv g = p /\ g_wgo g = true.
Proof. exact grant_success_authorised. Qed.
Print Assumptions C26_grant_success_authorised.

(** no self-escalation (was [C26_no_self_escalation_refuted] while GRANT ignored the session): whatever statements
    a non-administrator session without grant option on [obj] issues - GRANT, REVOKE, role DDL, checks; not the
    host-API calls [set_role] / security switch - no role ends up with a privilege on [obj] that it did not hold
    before.  [PrivLaws.self_grant_refused] is the former witness, now refused. *)
Theorem C26_no_self_escalation : forall h s r obj,
  powerless s r obj -> forallb session_op h = true ->
  forall r' q, has_privilege (exec s h) r' obj q = true -> has_privilege s r' obj q = true.
Proof. exact no_escalation. Qed.
Print Assumptions C26_no_self_escalation.

(** for administrators and while security is disabled GRANT is what it was before the fix *)
Theorem C26_grant_same_for_admin : forall s privs ot obj grantees wgo,
  st_security s = false \/ is_admin (current_role s) = true ->
  exec_grant s privs ot obj grantees wgo = exec_grant_before s privs ot obj grantees wgo.
Proof. exact grant_same_for_admin. Qed.
Print Assumptions C26_grant_same_for_admin.

(** ** the catalog operations *)
Theorem C26_add_then_has : forall G g, has_privilege_in (add_grant G g) (g_grantee g) (g_object g) (g_priv g) = true.
Proof. exact add_then_has. Qed.
Print Assumptions C26_add_then_has.

Theorem C26_remove_then_not_has : forall obj ge p G, has_privilege_in (remove_grants obj ge p false G) ge obj p = false.
Proof. exact remove_then_not_has. Qed.
Print Assumptions C26_remove_then_not_has.

Theorem C26_remove_other_unchanged : forall obj ge p G r o q,
  (r, o, q) <> (ge, obj, p) ->
  has_privilege_in (remove_grants obj ge p false G) r o q = has_privilege_in G r o q.
Proof. exact remove_other_unchanged. Qed.
Print Assumptions C26_remove_other_unchanged.

Theorem C26_remove_option_only_keeps_privileges : forall obj ge p G r o q,
  has_privilege_in (remove_grants obj ge p true G) r o q = has_privilege_in G r o q.
Proof. exact remove_option_only_keeps_privileges. Qed.
Print Assumptions C26_remove_option_only_keeps_privileges.

(** REVOKE ... RESTRICT succeeds only when no named grantee has granted a named privilege onwards *)
Theorem C26_restrict_success_no_dependents : forall s gof privs ot obj grantees s' ge p,
  exec_revoke s gof privs ot obj grantees CRestrict = (s', ROk) ->
  In ge grantees -> In p (expand privs ot) ->
  has_dependent_grants (st_grants s) obj ge p = false.
Proof. exact restrict_success_no_dependents. Qed.
Print Assumptions C26_restrict_success_no_dependents.

(** ** REVOKE ... CASCADE as a program: termination *)

(** no REVOKE exhausts the recursion budget (number of grants + 1): the walk marks every grantee it visits (fix
    "revoke-cascade-visited-set").  Before the fix REVOKE GRANT OPTION FOR ... CASCADE recursed forever as soon as a
    delegation cycle was reachable from a named grantee and the process died of a stack overflow; the witness
    history of that defect ([PrivLaws.cycle_history]) now returns ([PrivLaws.cycle_history_returns]). *)
Theorem C26_revoke_never_crashes : forall s gof privs ot obj grantees casc,
  snd (exec_revoke s gof privs ot obj grantees casc) <> RCrash.
Proof. exact revoke_never_crashes. Qed.
Print Assumptions C26_revoke_never_crashes.

Theorem C26_step_never_crashes : forall s o, snd (step s o) <> RCrash.
Proof. exact step_never_crashes. Qed.
Print Assumptions C26_step_never_crashes.

(** ** part 2: completeness of the checks over the access paths *)

(** the check-then-act discipline, for every access program *)
Theorem C26_guarded_sound : forall held prog seen,
  guardedb seen prog = true ->
  (forall t a, In (t, a) seen -> held t a = true) ->
  forall e, In e (snd (run held prog)) -> permitted held e = true.
Proof. exact guarded_sound. Qed.
Print Assumptions C26_guarded_sound.

Theorem C26_denied_changes_nothing : forall held prog,
  atomicb prog = true -> fst (run held prog) = ODenied ->
  filter is_change (snd (run held prog)) = [].
Proof. exact denied_changes_nothing. Qed.
Print Assumptions C26_denied_changes_nothing.

Theorem C26_lacking_is_denied : forall held prog seen t a,
  guardedb seen prog = true -> loudb prog = true ->
  (forall t' a', In (t', a') seen -> held t' a' = true) ->
  In (t, a) (flows prog) -> held t a = false ->
  fst (run held prog) = ODenied.
Proof. exact lacking_is_denied. Qed.
Print Assumptions C26_lacking_is_denied.

(** the enumerated table of the executor's paths: [all_paths] is exhaustive for the type [path] *)
Theorem C26_all_paths_complete : forall p : path, In p all_paths.
Proof. exact all_paths_complete. Qed.
Print Assumptions C26_all_paths_complete.

(** paths_complete: on every listed path, whatever the role holds, every row read or written is covered by a
    privilege the role holds.  (Before the fixes count-star-check-select, in-subquery-index-check-select,
    bulk-transfer-check-select and upsert-replace-check this failed on twelve paths: [C26_before_defects].) *)
Theorem C26_paths_complete : forall p held e, In e (snd (run held (program p))) -> permitted held e = true.
Proof. exact paths_complete. Qed.
Print Assumptions C26_paths_complete.

(** "otherwise it fails" (before the fixes delete-where-propagate-denied and window-partition-propagate-error
    three paths swallowed the refusal) *)
Theorem C26_paths_deny : forall p held t a,
  In (t, a) (required p) -> held t a = false -> fst (run held (program p)) = ODenied.
Proof. exact paths_deny. Qed.
Print Assumptions C26_paths_deny.

(** "and changes nothing" (before the fix truncate-cascade-check-first TRUNCATE t1, t2 CASCADE truncated t1 and
    was then refused) *)
Theorem C26_paths_denied_change_nothing : forall p held,
  fst (run held (program p)) = ODenied -> filter is_change (snd (run held (program p))) = [].
Proof. exact paths_denied_change_nothing. Qed.
Print Assumptions C26_paths_denied_change_nothing.

Theorem C26_paths_lacking : forall p held t a,
  In (t, a) (required p) -> held t a = false ->
  fst (run held (program p)) = ODenied /\ filter is_change (snd (run held (program p))) = [].
Proof. exact paths_lacking. Qed.
Print Assumptions C26_paths_lacking.

(** the requirement lists were not tuned to the code: they are exactly the data flows of the programs *)
Theorem C26_required_is_flows : forall p, same_set (required p) (flows (program p)) = true.
Proof. exact required_is_flows. Qed.
Print Assumptions C26_required_is_flows.

(** for the record: the table as it was before the fixes ([program_before]) and exactly which paths were
    unguarded / silent / partial; every other path is unchanged *)
Theorem C26_before_defects :
  before_unguarded =
    [P_count_star_order_by; P_count_star_limit; P_count_star_union_arm; P_count_star_with_cte; P_count_star_scalar_limit;
     P_in_index_order_by; P_in_index_group_by; P_in_index_partition_by; P_insert_select_bulk;
     P_on_duplicate_key_update; P_replace_into; P_insert_or_replace] /\
  before_silent = [P_window_partition_subquery; P_delete_where_subquery; P_delete_where_exists] /\
  before_partial = [P_truncate_multi_cascade].
Proof. exact before_defects. Qed.
Print Assumptions C26_before_defects.

Theorem C26_program_unchanged_elsewhere : forall p,
  In p before_unguarded \/ In p before_silent \/ In p before_partial \/ program p = program_before p.
Proof. exact program_unchanged_elsewhere. Qed.
Print Assumptions C26_program_unchanged_elsewhere.

(** ** the two parts together: the property as stated *)

(** for any history of CREATE ROLE / GRANT / REVOKE / ... and any statement of a listed shape executed under a
    non-administrator role with security enabled: a table's rows are read only if the history left the role
    SELECT on it - i.e. some GRANT gave it and no later REVOKE matched it, or it was held initially and never
    revoked - and rows are inserted / updated / deleted only with the matching privilege *)
Theorem C26_access_follows_history : forall s0 h r p,
  is_admin r = false ->
  forall e, In e (snd (run (held_in (session_after s0 h r)) (program p))) -> event_justified s0 h r e.
Proof. exact access_follows_history. Qed.
Print Assumptions C26_access_follows_history.

(** otherwise it fails and changes nothing *)
Theorem C26_lacking_fails_and_changes_nothing : forall s0 h r p t a,
  is_admin r = false ->
  In (t, a) (required p) -> ~ held_by_history s0 h r (name_of t) (priv_of a) ->
  fst (run (held_in (session_after s0 h r)) (program p)) = ODenied /\
  filter is_change (snd (run (held_in (session_after s0 h r)) (program p))) = [].
Proof. exact lacking_fails_and_changes_nothing. Qed.
Print Assumptions C26_lacking_fails_and_changes_nothing.

Theorem C26_admin_never_refused : forall s p,
  st_security s = false \/ is_admin (current_role s) = true ->
  fst (run (held_in s) (program p)) = OOk.
Proof. exact admin_never_refused. Qed.
Print Assumptions C26_admin_never_refused.
