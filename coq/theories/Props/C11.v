(** C11 — Failed DML statements leave the database unchanged.
    Only pinned statements, each closed by [exact] of a lemma proved in Store/AtomicLaws.v.

    Vocabulary (Store/Atomic.v): [step d st = (d', log, o)] runs one top-level INSERT / UPDATE / DELETE on the
    model of the executors; [o = Err site cause m] names the point of failure and the number [m] of storage writes
    of the statement's own that were not undone; [log] is the list of trigger firings, each with the way its body
    ended; [observe] = every table's rows in storage order; [wf] = table keys are distinct.
    [known_class log o = true] iff [m > 0] or some firing before the failure may have left an effect. *)
From Coq Require Import List ZArith Bool.
From VibeSQL Require Import Store.Trigger Store.Atomic Store.AtomicLaws.
Import ListNotations.

(** the property, with the exact side condition *)
Theorem C11_failed_stmt_noop : forall (d : db) (st : stmt) (d' : db) (log : list firing) (o : outcome),
  step d st = (d', log, o) -> wf d -> is_err o = true -> known_class log o = false -> observe d' = observe d.
Proof. exact failed_stmt_noop. Qed.
Print Assumptions C11_failed_stmt_noop.

(** without the side condition it is false of the faithful model *)
Theorem C11_failed_stmt_noop_refuted :
  exists d st d' log o, wf d /\ step d st = (d', log, o) /\ is_err o = true /\ observe d' <> observe d.
Proof. exact failed_stmt_noop_refuted. Qed.
Print Assumptions C11_failed_stmt_noop_refuted.

(** the same at every nesting depth and in a trigger context (statements of trigger bodies) *)
Theorem C11_quiet_failure_any_depth : forall (fuel : nat) (ctx : tctx) (d : db) (st : stmt) d' log s c,
  exec fuel ctx d st = (d', log, Err s c 0) -> wf d -> log_quiet log = true -> observe d' = observe d.
Proof. exact exec_quiet_failure. Qed.
Print Assumptions C11_quiet_failure_any_depth.

(** validate-all-then-insert: on a table without INSERT triggers an INSERT ... VALUES of any number of rows with a
    failing row at any position changes nothing at all (not even internal state), and a successful one appends
    every validated row *)
Theorem C11_insert_batch_path_atomic : forall f ctx d t ok rows d' log o tb,
  exec (S f) ctx d (SInsert t ok rows) = (d', log, o) ->
  get_table d t = Some tb -> triggers_for_table (d_trigs d) t EvInsert = [] ->
  log = [] /\
  match o with
  | Err _ _ m => d' = d /\ m = 0
  | Ok n => exists vrows, validate_rows d tb ctx rows 0 [] = inr vrows /\ n = length vrows
                          /\ d' = fold_left (fun d0 r => push_row d0 t r) vrows d
  end.
Proof. exact exec_insert_no_triggers_atomic. Qed.
Print Assumptions C11_insert_batch_path_atomic.

(** successful multi-row statements apply all of their rows.  PARTIAL: proved for INSERT ... VALUES on the batch
    path (no INSERT trigger on the table); for the per-row path, UPDATE and DELETE the statement is only checked by
    the harness oracle on the implementation and by the model comparison. *)
Theorem C11_ok_multirow_all_applied_partial : forall f ctx d t rows d' log n tb,
  exec (S f) ctx d (SInsert t true rows) = (d', log, Ok n) ->
  get_table d t = Some tb -> triggers_for_table (d_trigs d) t EvInsert = [] ->
  exists vrows tb', validate_rows d tb ctx rows 0 [] = inr vrows /\ n = length vrows /\ length vrows = length rows
                    /\ get_table d' t = Some tb' /\ tb_rows tb' = tb_rows tb ++ vrows.
Proof. exact insert_ok_all_applied. Qed.
Print Assumptions C11_ok_multirow_all_applied_partial.

(** the known classes: one witness each (failure site, writes not undone) *)
Theorem C11_insert_after_row_trigger_refuted : exists d st, wf d /\ changed_after_error d st (AtAfterRow 1) 1.
Proof. exact known_insert_after_row_trigger. Qed.
Print Assumptions C11_insert_after_row_trigger_refuted.

Theorem C11_insert_before_row_trigger_refuted : exists d st, wf d /\ changed_after_error d st (AtBeforeRow 1) 1.
Proof. exact known_insert_before_row_trigger. Qed.
Print Assumptions C11_insert_before_row_trigger_refuted.

Theorem C11_after_statement_trigger_refuted : exists d st, wf d /\ changed_after_error d st AtAfterStmt 2.
Proof. exact known_after_statement_trigger. Qed.
Print Assumptions C11_after_statement_trigger_refuted.

Theorem C11_update_after_row_trigger_refuted : exists d st, wf d /\ changed_after_error d st (AtAfterRow 1) 2.
Proof. exact known_update_after_row_trigger. Qed.
Print Assumptions C11_update_after_row_trigger_refuted.

Theorem C11_delete_after_row_trigger_refuted : exists d st, wf d /\ changed_after_error d st (AtAfterRow 1) 1.
Proof. exact known_delete_after_row_trigger. Qed.
Print Assumptions C11_delete_after_row_trigger_refuted.

Theorem C11_no_action_after_cascade_refuted : exists d st, wf d /\ changed_after_error d st (AtCascade 1) 1.
Proof. exact known_update_no_action_after_cascade. Qed.
Print Assumptions C11_no_action_after_cascade_refuted.

Theorem C11_bulk_transfer_partial_refuted : exists d st, wf d /\ changed_after_error d st (AtBulk 1) 1.
Proof. exact known_bulk_transfer_partial. Qed.
Print Assumptions C11_bulk_transfer_partial_refuted.

Theorem C11_update_type_mismatch_partial_refuted : exists d st, wf d /\ changed_after_error d st (AtApply 1) 1.
Proof. exact known_update_type_mismatch_partial. Qed.
Print Assumptions C11_update_type_mismatch_partial_refuted.

Theorem C11_trigger_effects_survive_refuted : exists d st, wf d /\ changed_after_error d st (AtValidate 0) 0.
Proof. exact known_trigger_effects_survive. Qed.
Print Assumptions C11_trigger_effects_survive_refuted.
