(** C11 — Failed DML statements leave the database unchanged.
    Only pinned statements, each closed by [exact] of a lemma proved in Store/AtomicLaws.v.

    Vocabulary (Store/Atomic.v): [step d st = (d', log, o)] runs one top-level INSERT / UPDATE / DELETE on the
    model of the executors; [o = Err site cause m] names the point of failure and the number [m] of storage writes
    of the statement's own that were not undone; [log] is the list of trigger firings, each with the way its body
    ended; [observe] = every table's rows in storage order; [wf] = table keys are distinct.
    [known_class log o = true] iff [m > 0] or some firing before the failure may have left an effect. *)
From Coq Require Import List ZArith Bool.
From VibeSQL Require Import Store.Trigger Store.Atomic Store.AtomicLaws Store.AppliedLaws.
Import ListNotations.

(** the property, with the exact side condition *)
Theorem C11_failed_stmt_noop : forall (d : db) (st : stmt) (d' : db) (log : list firing) (o : outcome),
  step d st = (d', log, o) -> wf d -> is_err o = true -> known_class log o = false -> observe d' = observe d.
Proof. exact failed_stmt_noop. Qed.
Print Assumptions C11_failed_stmt_noop.

(** without the side condition it is false of the faithful model *)
Theorem C11_failed_stmt_noop_refuted :
  exists d st d' log o, wf d /\ step d st = (d', log, o) /\ is_err o = true /\ observe d' <> observe d.
Proof. exact failed_stmt_noop_refuted. Qed.
Print Assumptions C11_failed_stmt_noop_refuted.

(** the same at every nesting depth and in a trigger context (statements of trigger bodies) *)
Theorem C11_quiet_failure_any_depth : forall (fuel : nat) (ctx : tctx) (d : db) (st : stmt) d' log s c,
  exec fuel ctx d st = (d', log, Err s c 0) -> wf d -> log_quiet log = true -> observe d' = observe d.
Proof. exact exec_quiet_failure. Qed.
Print Assumptions C11_quiet_failure_any_depth.

(** validate-all-then-insert: on a table without INSERT triggers an INSERT ... VALUES of any number of rows with a
    failing row at any position changes nothing at all (not even internal state), and a successful one appends
    every validated row *)
Theorem C11_insert_batch_path_atomic : forall f ctx d t ok rows d' log o tb,
  exec (S f) ctx d (SInsert t ok rows) = (d', log, o) ->
  get_table d t = Some tb -> triggers_for_table (d_trigs d) t EvInsert = [] ->
  log = [] /\
  match o with
  | Err _ _ m => d' = d /\ m = 0
  | Ok n => exists vrows, validate_rows d tb ctx rows 0 [] = inr vrows /\ n = length vrows
                          /\ d' = fold_left (fun d0 r => push_row d0 t r) vrows d
  end.
Proof. exact exec_insert_no_triggers_atomic. Qed.
Print Assumptions C11_insert_batch_path_atomic.

(** INSERT ... SELECT * through the bulk-transfer path (compatible schemas, no INSERT trigger on the destination):
    since fixes 3f052076 / C11-bulk-transfer-validate-first every source row is validated before the first insert, so
    a failure at any source row leaves the database exactly as it was and a success appends every source row
    (this was the known class insert-select-bulk-transfer-partial) *)
Theorem C11_bulk_transfer_atomic : forall fuel ctx d t src dst s d' log o,
  exec fuel ctx d (SInsertSel t src true) = (d', log, o) ->
  get_table d t = Some dst -> get_table d src = Some s ->
  is_none (hd_error (triggers_for_table (d_trigs d) t EvInsert)) && bulk_eligible dst s = true ->
  log = [] /\
  match o with
  | Err _ _ m => d' = d /\ m = 0
  | Ok n => n = length (tb_rows s) /\ d' = fold_left (fun d0 r => push_row d0 t r) (tb_rows s) d
  end.
Proof. exact exec_bulk_transfer_atomic. Qed.
Print Assumptions C11_bulk_transfer_atomic.

(** successful multi-row statements apply all of their rows.  Side conditions: the bodies of the database's triggers,
    run on any database with the same tables and triggers, do not touch the statement's own table ([frame_on f d t];
    otherwise "its rows" is not well defined -- met e.g. by audit-style bodies, C11_frame_condition_satisfiable), table
    keys are distinct, and for UPDATE / DELETE the table has no foreign key onto itself (referential actions could then
    rewrite the table under the statement). *)
Theorem C11_ok_insert_all_applied : forall f ctx d t tb rows d' log n vrows,
  exec (S f) ctx d (SInsert t true rows) = (d', log, Ok n) -> frame_on f d t ->
  get_table d t = Some tb -> validate_rows d tb ctx rows 0 [] = inr vrows ->
  exists tb', get_table d' t = Some tb' /\ tb_rows tb' = tb_rows tb ++ vrows /\ n = length vrows.
Proof. exact exec_insert_all_applied. Qed.
Print Assumptions C11_ok_insert_all_applied.

(** ... and without any side condition on the batch path (no INSERT trigger on the table) *)
Theorem C11_ok_insert_batch_all_applied : forall f ctx d t rows d' log n tb,
  exec (S f) ctx d (SInsert t true rows) = (d', log, Ok n) ->
  get_table d t = Some tb -> triggers_for_table (d_trigs d) t EvInsert = [] ->
  exists vrows tb', validate_rows d tb ctx rows 0 [] = inr vrows /\ n = length vrows /\ length vrows = length rows
                    /\ get_table d' t = Some tb' /\ tb_rows tb' = tb_rows tb ++ vrows.
Proof. exact insert_ok_all_applied. Qed.
Print Assumptions C11_ok_insert_batch_all_applied.

Theorem C11_ok_update_all_applied : forall f ctx d t asg w d' log n tb,
  exec (S f) ctx d (SUpdate t asg w) = (d', log, Ok n) -> frame_on f d t ->
  wf d -> get_table d t = Some tb -> references t tb = [] ->
  exists d1 ups tb',
    update_plan ctx d1 tb asg w = inr ups /\ get_table d1 t = Some tb
    /\ n = length ups
    /\ get_table d' t = Some tb' /\ tb_rows tb' = apply_all ups (tb_rows tb)
    /\ length (tb_rows tb') = length (tb_rows tb)
    /\ (forall u, In u ups -> nth_error (tb_rows tb) (fst (fst u)) = Some (snd (fst u))
                             /\ nth_error (tb_rows tb') (fst (fst u)) = Some (snd u))
    /\ (forall j, (forall u, In u ups -> fst (fst u) <> j) -> nth_error (tb_rows tb') j = nth_error (tb_rows tb) j)
    /\ (forall fi, In fi log -> t_gran (f_trig fi) = GRow ->
                   exists u, In u ups /\ f_old fi = Some (snd (fst u)) /\ f_new fi = Some (snd u)).
Proof. exact exec_update_all_applied. Qed.
Print Assumptions C11_ok_update_all_applied.

Theorem C11_ok_delete_all_applied : forall f ctx d t w d' log n tb,
  exec (S f) ctx d (SDelete t w) = (d', log, Ok n) -> frame_on f d t ->
  wf d -> get_table d t = Some tb -> references t tb = [] ->
  exists tb', get_table d' t = Some tb'
    /\ tb_rows tb' = map snd (filter (fun ir => negb (selected ctx w ir)) (indexed 0 (tb_rows tb)))
    /\ n = length (filter (selected ctx w) (indexed 0 (tb_rows tb))).
Proof. exact exec_delete_all_applied. Qed.
Print Assumptions C11_ok_delete_all_applied.

(** the frame condition holds whenever every trigger body is one INSERT into a table other than [t] that has no INSERT
    trigger itself (the audit-table pattern) *)
Theorem C11_frame_condition_satisfiable : forall f d a t, audit_bodies d a -> a <> t -> frame_on (S f) d t.
Proof. exact audit_bodies_frame. Qed.
Print Assumptions C11_frame_condition_satisfiable.

(** the known classes: one witness each (failure site, writes not undone) *)
Theorem C11_insert_after_row_trigger_refuted : exists d st, wf d /\ changed_after_error d st (AtAfterRow 1) 1.
Proof. exact known_insert_after_row_trigger. Qed.
Print Assumptions C11_insert_after_row_trigger_refuted.

Theorem C11_insert_before_row_trigger_refuted : exists d st, wf d /\ changed_after_error d st (AtBeforeRow 1) 1.
Proof. exact known_insert_before_row_trigger. Qed.
Print Assumptions C11_insert_before_row_trigger_refuted.

Theorem C11_after_statement_trigger_refuted : exists d st, wf d /\ changed_after_error d st AtAfterStmt 2.
Proof. exact known_after_statement_trigger. Qed.
Print Assumptions C11_after_statement_trigger_refuted.

Theorem C11_update_after_row_trigger_refuted : exists d st, wf d /\ changed_after_error d st (AtAfterRow 1) 2.
Proof. exact known_update_after_row_trigger. Qed.
Print Assumptions C11_update_after_row_trigger_refuted.

Theorem C11_delete_after_row_trigger_refuted : exists d st, wf d /\ changed_after_error d st (AtAfterRow 1) 1.
Proof. exact known_delete_after_row_trigger. Qed.
Print Assumptions C11_delete_after_row_trigger_refuted.

Theorem C11_no_action_after_cascade_refuted : exists d st, wf d /\ changed_after_error d st (AtCascade 1) 1.
Proof. exact known_update_no_action_after_cascade. Qed.
Print Assumptions C11_no_action_after_cascade_refuted.

Theorem C11_update_type_mismatch_partial_refuted : exists d st, wf d /\ changed_after_error d st (AtApply 1) 1.
Proof. exact known_update_type_mismatch_partial. Qed.
Print Assumptions C11_update_type_mismatch_partial_refuted.

Theorem C11_trigger_effects_survive_refuted : exists d st, wf d /\ changed_after_error d st (AtValidate 0) 0.
Proof. exact known_trigger_effects_survive. Qed.
Print Assumptions C11_trigger_effects_survive_refuted.
