(** C32 — Views and CTEs behave as their defining query.
    The reference semantics gives views / CTEs their meaning by expansion into derived tables
    (Sem/Views.v).  Theorems: a view reference IS its definition as a derived table; a query over a
    view and the query with the definition inlined have the same meaning; expansion leaves view-free
    queries untouched; the meaning is a function of the current database (no stored result).
    That the executor's views and CTEs have this meaning is decided by the correspondence run
    (CREATE VIEW form, WITH form and inlined form on the same database, before and after DML).
    Only pinned statements, each closed by [exact]. *)
From Coq Require Import List ZArith Bool.
From VibeSQL Require Import Sem.Syntax Sem.Rel Sem.Eval Sem.Views Sem.ViewsLaws.
Import ListNotations.

Theorem C32_view_reference_is_derived_table : forall (f : nat) (vs : list query) (i w : nat) (def : query),
  nth_error vs i = Some def -> expand_from (S f) vs (FView i w) = FSub def w.
Proof. exact view_reference_is_derived_table. Qed.
Print Assumptions C32_view_reference_is_derived_table.

Theorem C32_view_inline : forall (d : db) (defs : list query) (i w : nat) (def : query)
    dist where_ grouping having proj order limit offset,
  nth_error (expand_defs 64 defs) i = Some def ->
  has_view_query 62 def = false ->
  run_query_with_views d defs (QSelect dist [FView i w] where_ grouping having proj order limit offset)
  = run_query_with_views d defs (QSelect dist [FSub def w] where_ grouping having proj order limit offset).
Proof. exact view_inline. Qed.
Print Assumptions C32_view_inline.

Theorem C32_expand_without_views_is_identity : forall (f : nat) (vs : list query),
  (forall e, has_view_expr f e = false -> expand_expr f vs e = e)
  /\ (forall q, has_view_query f q = false -> expand_query f vs q = q)
  /\ (forall fi, has_view_from f fi = false -> expand_from f vs fi = fi).
Proof. exact expand_without_views_is_identity. Qed.
Print Assumptions C32_expand_without_views_is_identity.

Theorem C32_view_live : forall (d1 d2 : db) (defs : list query) (q : query),
  d1 = d2 -> run_query_with_views d1 defs q = run_query_with_views d2 defs q.
Proof. exact view_live. Qed.
Print Assumptions C32_view_live.
