(** C10 — Declared integrity constraints hold after every statement.
    Only pinned statements, each closed by [exact] of a lemma proved elsewhere.

    Model: Store/{Table,UserIndex,Constraints,Dml}.v ([step : db -> stmt -> db * result]);
    invariant and known classes: Store/Invariant.v.  [Inv d] = every table (and every table of
    the transaction snapshot) satisfies [constraints_hold] (C10), [hash_mirror] and
    [user_mirror] (C15) -- the three are proved together because each needs the others. *)
From Coq Require Import List ZArith Bool.
From VibeSQL Require Import Store.Table Store.UserIndex Store.Constraints Store.Dml
     Store.TableLaws Store.UserIndexLaws Store.Invariant Store.DmlLaws Store.InsertLaws
     Store.UpdateLaws Store.StepLaws Store.WitnessLaws Store.RejectLaws.
Import ListNotations.

(** the empty database built from schemas as CREATE TABLE produces them *)
Theorem C10_inv_init : forall schemas, Forall created schemas -> Inv (db_init schemas).
Proof. exact inv_init_thm. Qed.
Print Assumptions C10_inv_init.

(** every statement outside the known classes preserves the whole invariant, whether it
    succeeds or fails *)
Theorem C10_inv_step : forall d s, Inv d -> known_class s d = false -> Inv (fst (step d s)).
Proof. exact inv_step_thm. Qed.
Print Assumptions C10_inv_step.

Theorem C10_constraints_step :
  forall d s, Inv d -> known_class s d = false -> db_constraints_hold (fst (step d s)).
Proof. exact constraints_step_thm. Qed.
Print Assumptions C10_constraints_step.

(** every history none of whose statements falls into a known class: all declared constraints
    hold in the state it reaches *)
Theorem C10_constraints_reachable :
  forall schemas ss, Forall created schemas -> clean (db_init schemas) ss = true ->
  db_constraints_hold (run (db_init schemas) ss).
Proof. exact constraints_reachable_thm. Qed.
Print Assumptions C10_constraints_reachable.

(** a ConstraintViolation answer of INSERT ... VALUES is justified: appending the rows would
    violate a declared constraint (PRIMARY KEY, UNIQUE, UNIQUE INDEX, NOT NULL or CHECK) *)
Theorem C10_rejecting_is_sound :
  forall d ti t rows,
    Inv d -> nth_error (d_tabs d) ti = Some t ->
    snd (step d (SInsert ti rows)) = RErrConstraint ->
    ~ constraints_hold (set_rows t (t_rows t ++ rows)).
Proof. exact rejecting_is_sound_thm. Qed.
Print Assumptions C10_rejecting_is_sound.

(** ... which is false for UPDATE (new rows are validated against the pre-statement table:
    UPDATE t SET c0 = c0 + 1 over keys {1,2} is rejected) *)
Theorem C10_rejecting_is_sound_refuted_update :
  exists d t asg,
    Inv d /\ nth_error (d_tabs d) 0 = Some t
    /\ snd (step d (SUpdate 0 asg None)) = RErrConstraint
    /\ constraints_hold (set_rows t (upd_all_rows asg (t_rows t))).
Proof. exact update_rejection_unsound. Qed.
Print Assumptions C10_rejecting_is_sound_refuted_update.

(** repaired: with PRIMARY KEY (c1,c0) holding (1,2,_), (2,1,_) is accepted and a second (1,2,_)
    is rejected (it was the other way round while the probe key was built in column order) *)
Theorem C10_column_order_now_sound :
  exists d,
    Inv d
    /\ map t_rows (d_tabs d) = [[[Some 1%Z; Some 2%Z; Some 0%Z]]]
    /\ map (fun t => s_pk (t_sch t)) (d_tabs d) = [Some [1; 0]]
    /\ snd (step d (SInsert 0 [[Some 2%Z; Some 1%Z; Some 0%Z]])) = ROk 1
    /\ snd (step d (SInsert 0 [[Some 1%Z; Some 2%Z; Some 1%Z]])) = RErrConstraint.
Proof. exact column_order_now_sound. Qed.
Print Assumptions C10_column_order_now_sound.

(** The three classes repaired in the tree (update-ignores-unique-index,
    append-mode-bulk-transfer-duplicate-pk, composite-key-validated-in-column-order): their former
    witnesses are now histories outside every known class whose last statement is rejected.
    Later also create-unique-index-over-duplicates. *)
Theorem C10_repaired_statement_is_rejected :
  forall schemas ss s, c10_repaired schemas ss s ->
  Inv (fst (step (run (db_init schemas) ss) s)) /\ rejected (snd (step (run (db_init schemas) ss) s)) = true.
Proof. exact c10_repaired_holds. Qed.
Print Assumptions C10_repaired_statement_is_rejected.

(** The statement without the side condition is false of the faithful model.  One witness per
    known class: [c10_witness schemas history stmt] = the history is outside every known class
    (so [Inv] holds after it), [stmt] is in one, and a declared constraint fails after [stmt]. *)
Theorem C10_inv_step_refuted :
  forall schemas ss s, c10_witness schemas ss s ->
  exists d, Inv d /\ known_class s d = true /\ ~ db_constraints_hold (fst (step d s)).
Proof. exact c10_witness_refutes. Qed.
Print Assumptions C10_inv_step_refuted.

Local Open Scope Z_scope.

Theorem C10_refuted_multirow_update_same_pk :
  c10_witness [t_pk0] [SInsert 0 [i3 1 10 100; i3 2 20 200; i3 3 30 300]]
              (SUpdate 0 [(0%nat, EConst (Some 7))] (Some (PCmpC 0 OGe 2))).
Proof. exact wit_multirow_update_pk. Qed.
Print Assumptions C10_refuted_multirow_update_same_pk.

Theorem C10_refuted_multirow_update_same_unique_key :
  c10_witness [mk_schema 3 [true; false; false] (Some [0%nat]) [[1%nat]] []]
              [SInsert 0 [i3 1 10 5; i3 2 20 5; i3 3 30 6]]
              (SUpdate 0 [(1%nat, ECol 2)] None).
Proof. exact wit_multirow_update_unique. Qed.
Print Assumptions C10_refuted_multirow_update_same_unique_key.

Theorem C10_refuted_unique_index_batch_insert :
  c10_witness [t_pk0] [SCreateIndex 1 0 true [1%nat]; SInsert 0 [i3 1 10 0]]
              (SInsert 0 [i3 3 40 0; i3 4 40 0]).
Proof. exact wit_batch_insert_unique_index. Qed.
Print Assumptions C10_refuted_unique_index_batch_insert.

Theorem C10_refuted_multirow_update_same_unique_index_key :
  c10_witness [t_pk0] [SCreateIndex 1 0 true [1%nat]; SInsert 0 [i3 1 10 0; i3 2 20 0]]
              (SUpdate 0 [(1%nat, EConst (Some 30))] None).
Proof. exact wit_multirow_update_unique_index. Qed.
Print Assumptions C10_refuted_multirow_update_same_unique_index_key.

Theorem C10_repaired_update_unique_index :
  c10_repaired [t_pk0] [SCreateIndex 1 0 true [1%nat]; SInsert 0 [i3 1 10 0; i3 2 20 0]]
               (SUpdate 0 [(1%nat, EConst (Some 10))] (Some (PCmpC 0 OEq 2))).
Proof. exact rep_update_unique_index. Qed.
Print Assumptions C10_repaired_update_unique_index.

Theorem C10_repaired_append_mode_bulk_transfer :
  c10_repaired [t_pk0; mk_schema 3 [true; false; false] None [] []]
               [SInsert 0 [i3 1 0 0]; SInsert 0 [i3 2 0 0]; SInsert 0 [i3 3 0 0]; SInsert 0 [i3 4 0 0];
                SInsert 1 [i3 2 9 9]]
               (SInsertSelect 0 1 []).
Proof. exact rep_append_mode_bulk. Qed.
Print Assumptions C10_repaired_append_mode_bulk_transfer.

Theorem C10_repaired_composite_key_column_order :
  c10_repaired [mk_schema 3 [true; true; false] (Some [1%nat; 0%nat]) [] []]
               [SInsert 0 [i3 1 2 0]; SInsert 0 [i3 2 1 0]]
               (SInsert 0 [i3 1 2 1]).
Proof. exact rep_key_column_order. Qed.
Print Assumptions C10_repaired_composite_key_column_order.

Theorem C10_repaired_create_unique_index_over_duplicates :
  c10_repaired [t_pk0] [SInsert 0 [i3 1 10 0; i3 2 10 0]] (SCreateIndex 1 0 true [1%nat]).
Proof. exact rep_create_unique_index. Qed.
Print Assumptions C10_repaired_create_unique_index_over_duplicates.

Theorem C10_refuted_alter_add_unique_unvalidated :
  c10_witness [t_pk0] [SInsert 0 [i3 1 10 0; i3 2 10 0]] (SAddUnique 0 [1%nat]).
Proof. exact wit_alter_add_unique. Qed.
Print Assumptions C10_refuted_alter_add_unique_unvalidated.

Theorem C10_refuted_alter_add_pk_unvalidated :
  c10_witness [t_plain] [SInsert 0 [i3 1 10 0; i3 1 20 0]] (SAddPk 0 [0%nat]).
Proof. exact wit_alter_add_pk. Qed.
Print Assumptions C10_refuted_alter_add_pk_unvalidated.

Theorem C10_refuted_alter_add_check_unvalidated :
  c10_witness [t_pk0] [SInsert 0 [i3 1 10 0]] (SAddCheck 0 (PCmpC 1 OLt 5)).
Proof. exact wit_alter_add_check. Qed.
Print Assumptions C10_refuted_alter_add_check_unvalidated.

Theorem C10_refuted_alter_add_check_not_enforced :
  c10_witness [t_pk0] [SAddCheck 0 (PCmpC 1 OLt 5); SInsert 0 [i3 1 1 0]] (SInsert 0 [i3 2 9 0]).
Proof. exact wit_check_not_enforced. Qed.
Print Assumptions C10_refuted_alter_add_check_not_enforced.
