(** C29 — Password authentication accepts exactly the right credentials.
    Only pinned statements, each closed by [exact] of a lemma proved in Store/AuthLaws.v / Store/Md5Laws.v.
    Model: Store/Auth.v (/repo/crates/vibesql-server/src/auth/password.rs), Store/Md5.v (md-5 crate).
    [Argon2_prefix_ok] / [Argon2_verify_ok] are the explicit assumptions about the argon2 crate. *)
From Coq Require Import ZArith List.
From VibeSQL Require Import Generated.Consts Store.Md5 Store.Md5Laws Store.Auth Store.AuthLaws.
Import ListNotations.
Open Scope Z_scope.

(** ** cleartext path *)

(** exact characterisation of the accepted set (pure control flow, no assumption) *)
Theorem C29_verify_cleartext_char :
  forall (PH : Type) (phc_parse : str -> option PH) (argon2_verify : PH -> str -> bool) (st : store) (u p : str),
  verify_cleartext PH phc_parse argon2_verify st u p = true <->
  exists stored ph, lookup u st = Some stored /\ starts_with ARGON2_PREFIX stored = true /\
                    phc_parse stored = Some ph /\ argon2_verify ph p = true.
Proof. exact verify_cleartext_char. Qed.
Print Assumptions C29_verify_cleartext_char.

(** the property over all histories ([new] or [load_from_file], then any [add_user]/[add_user_hashed]):
    accepted iff the user's current secret was created from exactly this password *)
Theorem C29_history_cleartext_iff :
  forall (Salt PH : Type) (argon2_hash : str -> Salt -> option str)
         (phc_parse : str -> option PH) (argon2_verify : PH -> str -> bool),
  Argon2_prefix_ok Salt argon2_hash ->
  Argon2_verify_ok Salt PH argon2_hash phc_parse argon2_verify ->
  forall (o : origin Salt) (ops : list (op Salt)) (st : store) (a : astore) (u p : str),
  run Salt argon2_hash o ops = Ok st -> arun Salt argon2_hash o ops = Ok a ->
  (verify_cleartext PH phc_parse argon2_verify st u p = true <-> spec_cleartext PH phc_parse argon2_verify a u p).
Proof. exact history_cleartext_iff. Qed.
Print Assumptions C29_history_cleartext_iff.

(** the concrete and the abstract reading of a history fail together (same load error) or both succeed *)
Theorem C29_run_arun_same_outcome :
  forall (Salt : Type) (argon2_hash : str -> Salt -> option str) (o : origin Salt) (ops : list (op Salt)),
  (exists st a, run Salt argon2_hash o ops = Ok st /\ arun Salt argon2_hash o ops = Ok a) \/
  (exists e, run Salt argon2_hash o ops = Err e /\ arun Salt argon2_hash o ops = Err e).
Proof. exact run_arun_same_outcome. Qed.
Print Assumptions C29_run_arun_same_outcome.

(** DESIGN.md's formulation, for a user whose parseable "$argon2" secret was produced by [argon2_hash] *)
Theorem C29_verify_cleartext_iff :
  forall (Salt PH : Type) (argon2_hash : str -> Salt -> option str)
         (phc_parse : str -> option PH) (argon2_verify : PH -> str -> bool),
  Argon2_prefix_ok Salt argon2_hash ->
  Argon2_verify_ok Salt PH argon2_hash phc_parse argon2_verify ->
  forall (st : store) (u p : str),
  (forall stored, lookup u st = Some stored -> starts_with ARGON2_PREFIX stored = true ->
                  phc_parse stored <> None -> exists p0 s, argon2_hash p0 s = Some stored) ->
  (verify_cleartext PH phc_parse argon2_verify st u p = true <->
   exists p0 s stored, argon2_hash p0 s = Some stored /\ lookup u st = Some stored /\ p = p0).
Proof. exact verify_cleartext_iff. Qed.
Print Assumptions C29_verify_cleartext_iff.

Theorem C29_add_user_then_verify :
  forall (Salt PH : Type) (argon2_hash : str -> Salt -> option str)
         (phc_parse : str -> option PH) (argon2_verify : PH -> str -> bool),
  Argon2_prefix_ok Salt argon2_hash ->
  Argon2_verify_ok Salt PH argon2_hash phc_parse argon2_verify ->
  forall (st : store) (u p : str) (s : Salt) (st' : store) (p' : str),
  add_user Salt argon2_hash st u p s = Some st' ->
  (verify_cleartext PH phc_parse argon2_verify st' u p' = true <-> p' = p).
Proof. exact add_user_then_verify. Qed.
Print Assumptions C29_add_user_then_verify.

Theorem C29_add_user_other :
  forall (Salt PH : Type) (argon2_hash : str -> Salt -> option str)
         (phc_parse : str -> option PH) (argon2_verify : PH -> str -> bool)
         (st : store) (u p : str) (s : Salt) (st' : store) (u' p' : str),
  add_user Salt argon2_hash st u p s = Some st' -> u <> u' ->
  verify_cleartext PH phc_parse argon2_verify st' u' p' = verify_cleartext PH phc_parse argon2_verify st u' p'.
Proof. exact add_user_other. Qed.
Print Assumptions C29_add_user_other.

(** ** MD5 path *)

(** exact characterisation of the accepted set, for any function md5 and both comparisons
    ([lenient = true]: the code as it is, `strip_prefix("md5").unwrap_or(resp)`; [false]: the repair):
    the PostgreSQL response "md5"+digest, and under the lenient comparison also the bare digest *)
Theorem C29_verify_md5_char :
  forall (md5 : list Z -> list Z) (lenient : bool) (st : store) (u resp : str) (salt : list Z),
  verify_md5 md5 lenient st u resp salt = true <->
  exists pw, lookup u st = Some (MD5_STORE_PREFIX ++ pw) /\
             (resp = pg_md5_response md5 pw u salt \/
              (lenient = true /\ resp = compute_md5_password md5 pw u salt)).
Proof. exact verify_md5_char. Qed.
Print Assumptions C29_verify_md5_char.

(** the property as stated, with the concrete MD5: outside the known class [bare_hex32]
    (KNOWN: md5-response-without-prefix) for the code as it is, unconditionally for the repaired comparison *)
Theorem C29_verify_md5_iff :
  forall (lenient : bool) (st : store) (u resp : str) (salt : list Z),
  lenient = false \/ bare_hex32 resp = false ->
  (verify_md5 Md5.md5 lenient st u resp salt = true <->
   exists pw, lookup u st = Some (MD5_STORE_PREFIX ++ pw) /\ resp = pg_md5_response Md5.md5 pw u salt).
Proof. exact verify_md5_iff_md5. Qed.
Print Assumptions C29_verify_md5_iff.

(** the full statement (no side condition) is false of the faithful model of the present code
    ([Consts.c29_md5_lenient] is re-read from password.rs on every run): the witness *)
Theorem C29_verify_md5_refuted :
  c29_md5_lenient = true ->
  exists st u resp salt,
    verify_md5 Md5.md5 c29_md5_lenient st u resp salt = true /\ bare_hex32 resp = true /\
    ~ (exists pw, lookup u st = Some (MD5_STORE_PREFIX ++ pw) /\ resp = pg_md5_response Md5.md5 pw u salt).
Proof. exact verify_md5_refuted_now. Qed.
Print Assumptions C29_verify_md5_refuted.

(** after the one-line repair (fixes/C29-md5-response-without-prefix.patch) the statement holds in full *)
Theorem C29_verify_md5_strict_after_repair :
  forall (st : store) (u resp : str) (salt : list Z),
  verify_md5 Md5.md5 false st u resp salt = true <->
  exists pw, lookup u st = Some (MD5_STORE_PREFIX ++ pw) /\ resp = pg_md5_response Md5.md5 pw u salt.
Proof. exact verify_md5_strict_md5. Qed.
Print Assumptions C29_verify_md5_strict_after_repair.

(** inside the known class, what is accepted is exactly the right digest with its prefix missing *)
Theorem C29_verify_md5_known_class :
  forall (st : store) (u resp : str) (salt : list Z),
  bare_hex32 resp = true ->
  (verify_md5 Md5.md5 true st u resp salt = true <->
   exists pw, lookup u st = Some (MD5_STORE_PREFIX ++ pw) /\
              MD5_RESP_PREFIX ++ resp = pg_md5_response Md5.md5 pw u salt).
Proof. exact verify_md5_known_class_md5. Qed.
Print Assumptions C29_verify_md5_known_class.

Theorem C29_history_md5_iff :
  forall (Salt : Type) (argon2_hash : str -> Salt -> option str),
  Argon2_prefix_ok Salt argon2_hash ->
  forall (o : origin Salt) (ops : list (op Salt)) (st : store) (a : astore) (u resp : str) (salt : list Z),
  run Salt argon2_hash o ops = Ok st -> arun Salt argon2_hash o ops = Ok a ->
  forall lenient : bool, lenient = false \/ bare_hex32 resp = false ->
  (verify_md5 Md5.md5 lenient st u resp salt = true <-> spec_md5 Md5.md5 a u resp salt).
Proof. exact history_md5_iff_md5. Qed.
Print Assumptions C29_history_md5_iff.

Theorem C29_pg_md5_response_shape :
  forall (pw u : str) (salt : list Z),
  exists d, pg_md5_response Md5.md5 pw u salt = MD5_RESP_PREFIX ++ d /\ bare_hex32 d = true.
Proof. exact pg_md5_response_shape. Qed.
Print Assumptions C29_pg_md5_response_shape.

(** ** rejections *)
Theorem C29_unknown_user_rejected_cleartext :
  forall (PH : Type) (phc_parse : str -> option PH) (argon2_verify : PH -> str -> bool) (st : store) (u p : str),
  lookup u st = None -> verify_cleartext PH phc_parse argon2_verify st u p = false.
Proof. exact unknown_user_rejected_cleartext. Qed.
Print Assumptions C29_unknown_user_rejected_cleartext.

Theorem C29_unknown_user_rejected_md5 :
  forall (md5 : list Z -> list Z) (lenient : bool) (st : store) (u resp : str) (salt : list Z),
  lookup u st = None -> verify_md5 md5 lenient st u resp salt = false.
Proof. exact unknown_user_rejected_md5. Qed.
Print Assumptions C29_unknown_user_rejected_md5.

Theorem C29_argon2_stored_rejected_md5 :
  forall (md5 : list Z -> list Z) (lenient : bool) (st : store) (u stored resp : str) (salt : list Z),
  lookup u st = Some stored -> starts_with ARGON2_PREFIX stored = true -> verify_md5 md5 lenient st u resp salt = false.
Proof. exact argon2_stored_rejected_md5. Qed.
Print Assumptions C29_argon2_stored_rejected_md5.

Theorem C29_non_md5_stored_rejected_md5 :
  forall (md5 : list Z -> list Z) (lenient : bool) (st : store) (u stored resp : str) (salt : list Z),
  lookup u st = Some stored -> starts_with MD5_STORE_PREFIX stored = false -> verify_md5 md5 lenient st u resp salt = false.
Proof. exact non_md5_stored_rejected_md5. Qed.
Print Assumptions C29_non_md5_stored_rejected_md5.

Theorem C29_add_user_then_md5_rejected :
  forall (Salt : Type) (md5 : list Z -> list Z) (lenient : bool) (argon2_hash : str -> Salt -> option str),
  Argon2_prefix_ok Salt argon2_hash ->
  forall (st : store) (u p : str) (s : Salt) (st' : store) (resp : str) (salt : list Z),
  add_user Salt argon2_hash st u p s = Some st' -> verify_md5 md5 lenient st' u resp salt = false.
Proof. exact add_user_then_md5_rejected. Qed.
Print Assumptions C29_add_user_then_md5_rejected.

Theorem C29_md5_stored_rejected_cleartext :
  forall (PH : Type) (phc_parse : str -> option PH) (argon2_verify : PH -> str -> bool)
         (st : store) (u pw p : str),
  lookup u st = Some (MD5_STORE_PREFIX ++ pw) -> verify_cleartext PH phc_parse argon2_verify st u p = false.
Proof. exact md5_stored_rejected_cleartext. Qed.
Print Assumptions C29_md5_stored_rejected_cleartext.

Theorem C29_non_argon2_stored_rejected_cleartext :
  forall (PH : Type) (phc_parse : str -> option PH) (argon2_verify : PH -> str -> bool)
         (st : store) (u stored p : str),
  lookup u st = Some stored -> starts_with ARGON2_PREFIX stored = false ->
  verify_cleartext PH phc_parse argon2_verify st u p = false.
Proof. exact non_argon2_stored_rejected_cleartext. Qed.
Print Assumptions C29_non_argon2_stored_rejected_cleartext.

Theorem C29_malformed_phc_rejected :
  forall (PH : Type) (phc_parse : str -> option PH) (argon2_verify : PH -> str -> bool)
         (st : store) (u stored p : str),
  lookup u st = Some stored -> phc_parse stored = None -> verify_cleartext PH phc_parse argon2_verify st u p = false.
Proof. exact malformed_phc_rejected. Qed.
Print Assumptions C29_malformed_phc_rejected.

(** ** load_from_file *)

(** the format works: clean user / value with any whitespace padding is read back exactly *)
Theorem C29_parse_line_roundtrip :
  forall w1 u w2 w3 v w4 : str,
  all_ws w1 -> all_ws w2 -> all_ws w3 -> all_ws w4 ->
  u <> [] -> trim u = u -> ~ In 58 u -> (forall r, u <> 35 :: r) -> trim v = v ->
  parse_line (w1 ++ u ++ w2 ++ 58 :: w3 ++ v ++ w4) = LEntry u v.
Proof. exact parse_line_roundtrip. Qed.
Print Assumptions C29_parse_line_roundtrip.

Theorem C29_parse_line_skip_iff :
  forall raw : str, parse_line raw = LSkip <-> trim raw = [] \/ exists r, trim raw = 35 :: r.
Proof. exact parse_line_skip_iff. Qed.
Print Assumptions C29_parse_line_skip_iff.

Theorem C29_parse_line_no_colon :
  forall raw : str, ~ In 58 raw -> parse_line raw <> LSkip -> parse_line raw = LBadFormat.
Proof. exact parse_line_no_colon. Qed.
Print Assumptions C29_parse_line_no_colon.

Theorem C29_parse_line_entry_inv :
  forall raw u v : str,
  parse_line raw = LEntry u v ->
  u <> [] /\ trim u = u /\ trim v = v /\ ~ In 58 u /\ (forall r, trim raw <> 35 :: r) /\
  exists a b, trim raw = a ++ 58 :: b /\ ~ In 58 a /\ u = trim a /\ v = trim b.
Proof. exact parse_line_entry_inv. Qed.
Print Assumptions C29_parse_line_entry_inv.

(** [trim] removes exactly the surrounding whitespace *)
Theorem C29_trim_decomp :
  forall s : str, exists w1 w2, all_ws w1 /\ all_ws w2 /\ s = w1 ++ trim s ++ w2.
Proof. exact trim_decomp. Qed.
Print Assumptions C29_trim_decomp.

Theorem C29_trim_pad :
  forall w1 s w2 : str, all_ws w1 -> all_ws w2 -> clean s -> trim (w1 ++ s ++ w2) = s.
Proof. exact trim_pad. Qed.
Print Assumptions C29_trim_pad.

Theorem C29_trim_clean : forall s : str, clean (trim s).
Proof. exact trim_clean. Qed.
Print Assumptions C29_trim_clean.

(** [lines] loses nothing but the terminators *)
Theorem C29_raw_lines_concat :
  forall s : str, concat (map (fun '(l, t) => l ++ if (t : bool) then [10] else []) (raw_lines s)) = s.
Proof. exact raw_lines_concat. Qed.
Print Assumptions C29_raw_lines_concat.

Theorem C29_load_unlines :
  forall (Salt : Type) (argon2_hash : str -> Salt -> option str) (ls : list str) (salts : nat -> Salt),
  Forall (fun l => ~ In 10 l) ls ->
  load_from_file Salt argon2_hash (unlines ls) salts = load_lines Salt argon2_hash 0 ls salts empty_store.
Proof. exact load_unlines. Qed.
Print Assumptions C29_load_unlines.

(** a load error names a line that really is malformed *)
Theorem C29_load_err_line :
  forall (Salt : Type) (argon2_hash : str -> Salt -> option str)
         (ls : list str) (n : nat) (salts : nat -> Salt) (st : store) (e : load_err),
  load_lines Salt argon2_hash n ls salts st = Err e ->
  exists i, match e with
            | EBadFormat k => k = (n + i)%nat /\ parse_line (nth i ls []) = LBadFormat
            | EEmptyUser k => k = (n + i)%nat /\ parse_line (nth i ls []) = LEmptyUser
            | EHash k => k = (n + i)%nat /\ exists u v, parse_line (nth i ls []) = LEntry u v /\
                                                        classify v = KClear /\ argon2_hash v (salts k) = None
            end.
Proof. exact load_err_line. Qed.
Print Assumptions C29_load_err_line.

Theorem C29_load_ok_if_lines_ok :
  forall (Salt : Type) (argon2_hash : str -> Salt -> option str)
         (ls : list str) (n : nat) (salts : nat -> Salt) (st : store),
  Forall line_ok ls -> (forall v s, argon2_hash v s <> None) ->
  exists st', load_lines Salt argon2_hash n ls salts st = Ok st'.
Proof. exact load_ok_if_lines_ok. Qed.
Print Assumptions C29_load_ok_if_lines_ok.

(** end to end: the last line naming [u] decides; a cleartext value logs in with exactly that value *)
Theorem C29_file_login_cleartext :
  forall (Salt PH : Type) (argon2_hash : str -> Salt -> option str)
         (phc_parse : str -> option PH) (argon2_verify : PH -> str -> bool),
  Argon2_prefix_ok Salt argon2_hash ->
  Argon2_verify_ok Salt PH argon2_hash phc_parse argon2_verify ->
  forall (content : str) (salts : nat -> Salt) (st : store) (u v p : str),
  load_from_file Salt argon2_hash content salts = Ok st ->
  lookup u (rev (file_entries (lines content))) = Some v -> classify v = KClear ->
  (verify_cleartext PH phc_parse argon2_verify st u p = true <-> p = v).
Proof. exact file_login_cleartext. Qed.
Print Assumptions C29_file_login_cleartext.

Theorem C29_file_login_md5 :
  forall (Salt : Type) (argon2_hash : str -> Salt -> option str),
  Argon2_prefix_ok Salt argon2_hash ->
  forall (content : str) (salts : nat -> Salt) (st : store) (u pw resp : str) (salt : list Z),
  load_from_file Salt argon2_hash content salts = Ok st ->
  lookup u (rev (file_entries (lines content))) = Some (MD5_STORE_PREFIX ++ pw) ->
  forall lenient : bool, lenient = false \/ bare_hex32 resp = false ->
  (verify_md5 Md5.md5 lenient st u resp salt = true <-> resp = pg_md5_response Md5.md5 pw u salt).
Proof. exact file_login_md5_md5. Qed.
Print Assumptions C29_file_login_md5.

Theorem C29_file_entries_wf :
  forall (ls : list str) (u v : str),
  In (u, v) (file_entries ls) -> u <> [] /\ trim u = u /\ trim v = v /\ ~ In 58 u.
Proof. exact file_entries_wf. Qed.
Print Assumptions C29_file_entries_wf.

(** ** MD5 / hex *)
Theorem C29_md5_length : forall m : list Z, length (Md5.md5 m) = 16%nat.
Proof. exact md5_length. Qed.
Print Assumptions C29_md5_length.

Theorem C29_md5_range : forall m : list Z, Forall (fun b => 0 <= b < 256) (Md5.md5 m).
Proof. exact md5_range. Qed.
Print Assumptions C29_md5_range.

Theorem C29_md5_pad_length : forall m : list Z, Z.of_nat (length (md5_pad m)) mod 64 = 0.
Proof. exact md5_pad_length. Qed.
Print Assumptions C29_md5_pad_length.

Theorem C29_utf8_hex : forall l : list Z, utf8 (hex l) = hex l.
Proof. exact utf8_hex. Qed.
Print Assumptions C29_utf8_hex.

(** ** the last write decides *)
Theorem C29_last_add_user_decides :
  forall (Salt PH : Type) (argon2_hash : str -> Salt -> option str)
         (phc_parse : str -> option PH) (argon2_verify : PH -> str -> bool),
  Argon2_prefix_ok Salt argon2_hash ->
  Argon2_verify_ok Salt PH argon2_hash phc_parse argon2_verify ->
  forall (o : origin Salt) (ops1 : list (op Salt)) (u p : str) (s : Salt) (ops2 : list (op Salt)) (st : store) (p' : str),
  run Salt argon2_hash o (ops1 ++ OpAddUser Salt u p s :: ops2) = Ok st -> argon2_hash p s <> None ->
  Forall (fun o => op_user Salt o <> u) ops2 ->
  (verify_cleartext PH phc_parse argon2_verify st u p' = true <-> p' = p).
Proof. exact last_add_user_decides. Qed.
Print Assumptions C29_last_add_user_decides.

Theorem C29_last_add_md5_decides :
  forall (Salt PH : Type) (lenient : bool) (argon2_hash : str -> Salt -> option str)
         (phc_parse : str -> option PH) (argon2_verify : PH -> str -> bool)
         (o : origin Salt) (ops1 : list (op Salt)) (u pw : str) (ops2 : list (op Salt)) (st : store)
         (resp : str) (salt : list Z),
  run Salt argon2_hash o (ops1 ++ OpAddHashed Salt u (MD5_STORE_PREFIX ++ pw) :: ops2) = Ok st ->
  Forall (fun o => op_user Salt o <> u) ops2 ->
  lenient = false \/ bare_hex32 resp = false ->
  (verify_md5 Md5.md5 lenient st u resp salt = true <-> resp = pg_md5_response Md5.md5 pw u salt) /\
  (forall p, verify_cleartext PH phc_parse argon2_verify st u p = false).
Proof. exact last_add_md5_decides_md5. Qed.
Print Assumptions C29_last_add_md5_decides.

(** ** representation: Rust compares UTF-8 bytes, the model compares scalar values *)
Theorem C29_utf8_inj :
  forall a b : str, Forall scalar a -> Forall scalar b -> utf8 a = utf8 b -> a = b.
Proof. exact utf8_inj. Qed.
Print Assumptions C29_utf8_inj.

Theorem C29_utf8_range : forall s : str, Forall scalar s -> Forall (fun b => 0 <= b < 256) (utf8 s).
Proof. exact utf8_range. Qed.
Print Assumptions C29_utf8_range.

(** ** tie to the source: the model's literals are the ones re-read from password.rs *)
Theorem C29_consts_tie :
  ARGON2_PREFIX = c29_argon2_prefix /\ MD5_STORE_PREFIX = c29_md5_store_prefix /\
  MD5_RESP_PREFIX = c29_md5_resp_prefix /\ HASH_CHAR = c29_comment_char /\
  c29_separator_char = 58 /\ c29_splitn_limit = 2.
Proof. exact consts_tie. Qed.
Print Assumptions C29_consts_tie.
