(** C24 — Statement execution never panics and never silently wraps numbers.
    Only pinned statements, each closed by [exact] of a lemma proved in Mech/*Laws.v.

    Model: Mech/Arith.v (operators, unary minus, ABS, MOD, SUM/AVG accumulation, simd sums,
    SUBSTRING index arithmetic, range_scan guards), Mech/F64.v (float primitives).
    [profile] = Debug (overflow checks on: an unchecked overflow panics) | Release (it wraps).

    The full-strength statements ("no operator ever panics", "every integer result is exact") are
    FALSE of the faithful model and of the code: each has a [_refuted] witness, the exact
    characterisation of when it fails, and the true statement under that side condition. *)
From Coq Require Import ZArith List Bool.
From VibeSQL Require Import Value.SqlValue Mech.F64 Mech.Arith Mech.ArithLaws Mech.AggLaws Mech.StrRangeLaws.
Import ListNotations.
Open Scope Z_scope.

(** * + - * on integer variants (INTEGER, SMALLINT, BIGINT, UNSIGNED, BOOLEAN) *)

(** whatever [+ - *] returns on integer operands is the exact mathematical result: always in the
    Debug profile, and in the Release profile exactly when the exact result fits i64 *)
Theorem C24_arith_exact_or_error :
  forall (temporal : bool -> sqlvalue -> sqlvalue -> res sqlvalue) (o : aop) (p : profile) (l r : sqlvalue) (a b : Z) (v : sqlvalue),
    to_Z l = Some a -> to_Z r = Some b -> wf l = true -> wf r = true ->
    unsigned_wrap l = false -> unsigned_wrap r = false ->
    arith3 temporal o p l r = Ok v ->
    (p = Debug \/ fits_i64 (z_op o a b) = true) ->
    v = VInteger (z_op o a b).
Proof. exact arith_exact_or_error. Qed.
Print Assumptions C24_arith_exact_or_error.

(** no panic and the exact value under the no-overflow side condition, in both profiles *)
Theorem C24_arith_no_panic :
  forall (temporal : bool -> sqlvalue -> sqlvalue -> res sqlvalue) (o : aop) (p : profile) (l r : sqlvalue) (a b : Z),
    to_Z l = Some a -> to_Z r = Some b -> wf l = true -> wf r = true ->
    unsigned_wrap l = false -> unsigned_wrap r = false ->
    fits_i64 (z_op o a b) = true ->
    arith3 temporal o p l r = Ok (VInteger (z_op o a b)).
Proof. exact arith_no_overflow_ok. Qed.
Print Assumptions C24_arith_no_panic.

(** the unconditional statement is false: [SELECT 9223372036854775807 + 1] etc. panic (Debug) *)
Theorem C24_arith_no_panic_refuted :
  arith3 no_temporal OAdd Debug (VInteger i64_max) (VInteger 1) = Panic POverflow /\
  arith3 no_temporal OSub Debug (VInteger i64_min) (VInteger 1) = Panic POverflow /\
  arith3 no_temporal OMul Debug (VInteger 3037000500) (VInteger 3037000500) = Panic POverflow.
Proof. exact arith_no_panic_refuted. Qed.
Print Assumptions C24_arith_no_panic_refuted.

(** ... and silently wrap (Release) *)
Theorem C24_arith_exact_refuted :
  arith3 no_temporal OAdd Release (VInteger i64_max) (VInteger 1) = Ok (VInteger i64_min) /\
  arith3 no_temporal OSub Release (VInteger i64_min) (VInteger 1) = Ok (VInteger i64_max) /\
  arith3 no_temporal OMul Release (VInteger i64_max) (VInteger 2) = Ok (VInteger (-2)).
Proof. exact arith_silent_wrap_refuted. Qed.
Print Assumptions C24_arith_exact_refuted.

(** UNSIGNED above i64::MAX is reinterpreted: [CAST(18446744073709551615 AS UNSIGNED) + 0 = -1] *)
Theorem C24_unsigned_wrap_refuted :
  forall p, arith3 no_temporal OAdd p (VUnsigned (2 ^ 64 - 1)) (VInteger 0) = Ok (VInteger (-1)).
Proof. exact unsigned_wrap_refuted. Qed.
Print Assumptions C24_unsigned_wrap_refuted.

(** exact characterisation: the Debug build panics iff the exact result leaves i64, the Release
    build returns the two's-complement wrap of the exact result *)
Theorem C24_arith_debug_panic_iff_overflow :
  forall (temporal : bool -> sqlvalue -> sqlvalue -> res sqlvalue) (o : aop) (l r : sqlvalue) (a b : Z),
    exact_pair l r = Some (a, b) ->
    (arith3 temporal o Debug l r = Panic POverflow <-> fits_i64 (z_op o a b) = false).
Proof. exact arith_debug_panic_iff_overflow. Qed.
Print Assumptions C24_arith_debug_panic_iff_overflow.

Theorem C24_arith_release_wraps :
  forall (temporal : bool -> sqlvalue -> sqlvalue -> res sqlvalue) (o : aop) (l r : sqlvalue) (a b : Z),
    exact_pair l r = Some (a, b) -> arith3 temporal o Release l r = Ok (VInteger (wrap64 (z_op o a b))).
Proof. exact arith_release_wraps. Qed.
Print Assumptions C24_arith_release_wraps.

(** for operands of ANY variant (floats, strings, temporal values, NULL), the only panic of [+ - *] is
    the Debug-profile i64 overflow on an exact pair (the delegated date arithmetic is a hypothesis) *)
Theorem C24_arith_panic_only_overflow :
  forall (temporal : bool -> sqlvalue -> sqlvalue -> res sqlvalue) (o : aop) (p : profile) (l r : sqlvalue) (x : panic),
    (forall is_add l' r' y, temporal is_add l' r' <> Panic y) ->
    arith3 temporal o p l r = Panic x ->
    p = Debug /\ x = POverflow /\ exists a b, exact_pair l r = Some (a, b) /\ fits_i64 (z_op o a b) = false.
Proof. exact arith_panic_only_overflow. Qed.
Print Assumptions C24_arith_panic_only_overflow.

(** * % , DIV, / *)
Theorem C24_modulo_exact :
  forall (l r : sqlvalue) (a b : Z) (v : sqlvalue),
    to_Z l = Some a -> to_Z r = Some b -> wf l = true -> wf r = true ->
    unsigned_wrap l = false -> unsigned_wrap r = false ->
    modulo l r = Ok v ->
    (b = 0 /\ v = VNull) \/ (b <> 0 /\ v = VInteger (Z.rem a b)).
Proof. exact modulo_exact. Qed.
Print Assumptions C24_modulo_exact.

(** [i64::MIN % -1] panics in both profiles, and is the only panic of [%] *)
Theorem C24_modulo_panic_iff :
  forall (l r : sqlvalue) (x : panic),
    modulo l r = Panic x <-> x = POverflow /\ exact_pair l r = Some (i64_min, -1).
Proof. exact modulo_panic_iff. Qed.
Print Assumptions C24_modulo_panic_iff.

Theorem C24_integer_divide_never_panics : forall (l r : sqlvalue) (x : panic), integer_divide l r <> Panic x.
Proof. exact integer_divide_never_panics. Qed.
Print Assumptions C24_integer_divide_never_panics.

(** DIV goes through f64: not exact above 2^53, saturates at i64::MIN DIV -1 *)
Theorem C24_integer_divide_exact_refuted :
  integer_divide (VInteger 9007199254740993) (VInteger 1) = Ok (VInteger 9007199254740992) /\
  integer_divide (VInteger i64_min) (VInteger (-1)) = Ok (VInteger i64_max).
Proof. exact integer_divide_inexact_refuted. Qed.
Print Assumptions C24_integer_divide_exact_refuted.

(** PARTIAL: exactness of DIV is proved only on the box |a|,|b| <= 200 (exhaustive evaluation of the
    model); the general statement for |a|,|b| <= 2^53 needs the rounding theory of SFdiv and is only
    validated by the tie *)
Theorem C24_integer_divide_exact_small_partial :
  forall a b : Z, -200 <= a <= 200 -> -200 <= b <= 200 -> b <> 0 ->
    integer_divide (VInteger a) (VInteger b) = Ok (VInteger (Z.quot a b)).
Proof. exact integer_divide_exact_small. Qed.
Print Assumptions C24_integer_divide_exact_small_partial.

(** [/] panics exactly on the operand classes for which [divide] has no match arm *)
Theorem C24_divide_panic_iff :
  forall (m : sqlmode) (l r : sqlvalue) (x : panic),
    divide m l r = Panic x <-> x = PUnreachable /\ div_unreachable_class m l r = true.
Proof. exact divide_panic_iff. Qed.
Print Assumptions C24_divide_panic_iff.

(** on integer-variant operands [/] never panics (it returns a NUMERIC, an integer, or NULL) *)
Theorem C24_divide_int_no_panic :
  forall (m : sqlmode) (l r : sqlvalue) (a b : Z) (x : panic),
    to_Z l = Some a -> to_Z r = Some b -> divide m l r <> Panic x.
Proof. exact divide_int_no_panic. Qed.
Print Assumptions C24_divide_int_no_panic.

Theorem C24_divide_no_panic_refuted :
  divide MySQL (VFloat 1069547520) (VInteger 2) = Panic PUnreachable /\
  divide SQLite (VBoolean true) (VNumeric 4609434218613702656) = Panic PUnreachable.
Proof. exact divide_no_panic_refuted. Qed.
Print Assumptions C24_divide_no_panic_refuted.

(** * unary minus, ABS, MOD() *)
Theorem C24_unary_minus_panic_iff :
  forall (p : profile) (v : sqlvalue) (x : panic), wf v = true ->
    (unary_minus p v = Panic x <-> p = Debug /\ x = POverflow /\ neg_overflow_class v = true).
Proof. exact unary_minus_panic_iff. Qed.
Print Assumptions C24_unary_minus_panic_iff.

Theorem C24_unary_minus_exact :
  forall (p : profile) (v : sqlvalue) (z : Z),
    wf v = true -> neg_overflow_class v = false ->
    match v with VInteger _ | VBigint _ | VSmallint _ => True | _ => False end ->
    to_Z v = Some z -> exists w, unary_minus p v = Ok w /\ to_Z w = Some (- z).
Proof. exact unary_minus_exact. Qed.
Print Assumptions C24_unary_minus_exact.

Theorem C24_unary_minus_refuted :
  unary_minus Debug (VInteger i64_min) = Panic POverflow /\
  unary_minus Release (VInteger i64_min) = Ok (VInteger i64_min) /\
  unary_minus Release (VSmallint (-32768)) = Ok (VSmallint (-32768)).
Proof. exact unary_minus_refuted. Qed.
Print Assumptions C24_unary_minus_refuted.

Theorem C24_abs_panic_iff :
  forall (p : profile) (v : sqlvalue) (x : panic), wf v = true ->
    (abs_fn p v = Panic x <-> p = Debug /\ x = POverflow /\ neg_overflow_class v = true).
Proof. exact abs_panic_iff. Qed.
Print Assumptions C24_abs_panic_iff.

Theorem C24_mod_fn_panic_iff :
  forall (a b : sqlvalue) (x : panic),
    mod_fn a b = Panic x <-> x = POverflow /\ a = VInteger i64_min /\ b = VInteger (-1).
Proof. exact mod_fn_panic_iff. Qed.
Print Assumptions C24_mod_fn_panic_iff.

(** * SUM accumulation (AggregateAccumulator) on integer columns *)
Theorem C24_sum_no_wrap :
  forall (temporal : bool -> sqlvalue -> sqlvalue -> res sqlvalue) (p : profile) (vs : list sqlvalue),
    int_col vs = true -> Z.of_nat (length vs) < 2 ^ 63 -> prefixes_fit 0 (ints_of vs) = true ->
    agg_sum temporal p false vs = Ok (exact_sum_value vs).
Proof. exact sum_no_wrap. Qed.
Print Assumptions C24_sum_no_wrap.

Theorem C24_sum_debug_exact :
  forall (temporal : bool -> sqlvalue -> sqlvalue -> res sqlvalue) (vs : list sqlvalue) (v : sqlvalue),
    int_col vs = true -> agg_sum temporal Debug false vs = Ok v -> v = exact_sum_value vs.
Proof. exact sum_debug_exact. Qed.
Print Assumptions C24_sum_debug_exact.

Theorem C24_sum_debug_panic_iff :
  forall (temporal : bool -> sqlvalue -> sqlvalue -> res sqlvalue) (vs : list sqlvalue),
    int_col vs = true -> Z.of_nat (length vs) < 2 ^ 63 ->
    (agg_sum temporal Debug false vs = Panic POverflow <-> prefixes_fit 0 (ints_of vs) = false).
Proof. exact sum_debug_panic_iff. Qed.
Print Assumptions C24_sum_debug_panic_iff.

Theorem C24_sum_release_wraps :
  forall (temporal : bool -> sqlvalue -> sqlvalue -> res sqlvalue) (vs : list sqlvalue),
    int_col vs = true -> Z.of_nat (length vs) < 2 ^ 63 ->
    agg_sum temporal Release false vs =
    Ok (match ints_of vs with [] => VNull | zs => VInteger (wrap64 (zsum zs)) end).
Proof. exact sum_release_wraps. Qed.
Print Assumptions C24_sum_release_wraps.

Theorem C24_sum_no_wrap_refuted :
  agg_sum no_temporal Debug false [VInteger i64_max; VInteger 1] = Panic POverflow /\
  agg_sum no_temporal Release false [VInteger i64_max; VInteger 1] = Ok (VInteger i64_min).
Proof. exact sum_no_wrap_refuted. Qed.
Print Assumptions C24_sum_no_wrap_refuted.

(** AVG over an integer column: same accumulation, one f64 division at the end *)
Theorem C24_avg_no_wrap :
  forall (temporal : bool -> sqlvalue -> sqlvalue -> res sqlvalue) (p : profile) (vs : list sqlvalue),
    int_col vs = true -> Z.of_nat (length vs) < 2 ^ 63 -> prefixes_fit 0 (ints_of vs) = true ->
    agg_avg temporal p false vs =
    Ok match ints_of vs with
       | [] => VNull
       | zs => VNumeric (fdiv b64 (f_of_Z b64 (zsum zs)) (f_of_Z b64 (Z.of_nat (length zs))))
       end.
Proof. exact avg_no_wrap. Qed.
Print Assumptions C24_avg_no_wrap.

Theorem C24_avg_debug_exact :
  forall (temporal : bool -> sqlvalue -> sqlvalue -> res sqlvalue) (vs : list sqlvalue) (v : sqlvalue),
    int_col vs = true -> agg_avg temporal Debug false vs = Ok v ->
    v = match ints_of vs with
        | [] => VNull
        | zs => VNumeric (fdiv b64 (f_of_Z b64 (zsum zs)) (f_of_Z b64 (Z.of_nat (length zs))))
        end.
Proof. exact avg_debug_exact. Qed.
Print Assumptions C24_avg_debug_exact.

(** partial sums of non-negative terms are monotone: the total alone decides *)
Theorem C24_prefixes_fit_nonneg :
  forall (s : Z) (zs : list Z),
    0 <= s -> Forall (fun z => 0 <= z) zs -> fits_i64 (s + zsum zs) = true -> prefixes_fit s zs = true.
Proof. exact prefixes_fit_nonneg. Qed.
Print Assumptions C24_prefixes_fit_nonneg.

(** * columnar sums: simd_sum_i64 and simd_aggregate_i64 *)
Theorem C24_simd_sum_release_wraps : forall col : list Z, simd_sum_i64 Release col = Ok (wrap64 (zsum col)).
Proof. exact simd_sum_release. Qed.
Print Assumptions C24_simd_sum_release_wraps.

Theorem C24_simd_sum_debug_exact : forall (col : list Z) (v : Z), simd_sum_i64 Debug col = Ok v -> v = zsum col.
Proof. exact simd_sum_debug_exact. Qed.
Print Assumptions C24_simd_sum_debug_exact.

Theorem C24_simd_sum_nonneg :
  forall (p : profile) (col : list Z),
    Forall (fun z => 0 <= z) col -> fits_i64 (zsum col) = true -> simd_sum_i64 p col = Ok (zsum col).
Proof. exact simd_sum_nonneg. Qed.
Print Assumptions C24_simd_sum_nonneg.

(** the Debug build panics on an intermediate chunk sum although the total fits *)
Theorem C24_simd_sum_intermediate_overflow_refuted :
  simd_sum_i64 Debug [i64_max; 1; -5; 0] = Panic POverflow /\
  fits_i64 (zsum [i64_max; 1; -5; 0]) = true /\
  simd_sum_i64 Release [i64_max; 1; -5; 0] = Ok (zsum [i64_max; 1; -5; 0]).
Proof. exact simd_sum_intermediate_overflow_refuted. Qed.
Print Assumptions C24_simd_sum_intermediate_overflow_refuted.

Theorem C24_simd_aggregate_release_wraps :
  forall (bsize : nat) (vs : list sqlvalue),
    int_col vs = true -> Z.of_nat (length vs) < 2 ^ 63 ->
    simd_aggregate_i64 Release bsize AggSum vs =
    Ok (match ints_of vs with [] => VNull | zs => VDouble (f_of_Z b64 (wrap64 (zsum zs))) end).
Proof. exact simd_aggregate_release_wraps. Qed.
Print Assumptions C24_simd_aggregate_release_wraps.

Theorem C24_simd_aggregate_debug_exact :
  forall (bsize : nat) (vs : list sqlvalue) (v : sqlvalue),
    int_col vs = true -> simd_aggregate_i64 Debug bsize AggSum vs = Ok v ->
    v = match ints_of vs with [] => VNull | zs => VDouble (f_of_Z b64 (zsum zs)) end.
Proof. exact simd_aggregate_debug_exact. Qed.
Print Assumptions C24_simd_aggregate_debug_exact.

Theorem C24_simd_aggregate_refuted :
  simd_aggregate_i64 Debug 1024 AggSum [VInteger i64_max; VInteger 1] = Panic POverflow /\
  simd_aggregate_i64 Release 1024 AggSum [VInteger i64_max; VInteger 1] = Ok (VDouble 14114281232179134464).
Proof. exact simd_aggregate_refuted. Qed.
Print Assumptions C24_simd_aggregate_refuted.

(** the floating-point paths of the columnar SUM/AVG never panic; every panic of a columnar SUM/AVG is
    an overflow of the i64 path (chosen when the first non-NULL value of the first 100 rows is an integer) *)
Theorem C24_simd_aggregate_f64_no_panic :
  forall (p : profile) (bsize : nat) (op : aggop) (vs : list sqlvalue) (x : panic),
    Z.of_nat (length vs) < 2 ^ 63 -> simd_aggregate_f64 p bsize op vs <> Panic x.
Proof. exact simd_aggregate_f64_no_panic. Qed.
Print Assumptions C24_simd_aggregate_f64_no_panic.

Theorem C24_columnar_aggregate_panic_only_i64_path :
  forall (p : profile) (bsize : nat) (op : aggop) (vs : list sqlvalue) (x : panic),
    Z.of_nat (length vs) < 2 ^ 63 ->
    columnar_aggregate p bsize op vs = Panic x ->
    can_use_simd 100 vs = Some true /\ simd_aggregate_i64 p bsize op vs = Panic x.
Proof. exact columnar_aggregate_panic_only_i64_path. Qed.
Print Assumptions C24_columnar_aggregate_panic_only_i64_path.

(** * SUBSTRING *)
(** for any text, start and length the index arithmetic cannot overflow [usize] and the slice is in
    range: the only panic is a byte index inside a multi-byte character *)
Theorem C24_substring_panic_only_char_boundary :
  forall (p : profile) (s : list Z) (start l : Z) (x : panic),
    str_ok s -> i64_ok start -> i64_ok l ->
    (substring p [VVarchar s; VInteger start; VInteger l] = Panic x \/
     substring p [VVarchar s; VInteger start] = Panic x) ->
    x = PCharBoundary.
Proof. exact substring_panic_only_char_boundary. Qed.
Print Assumptions C24_substring_panic_only_char_boundary.


(** exact characterisation of the panicking calls *)
Theorem C24_substring_panic_iff :
  forall (p : profile) (s : list Z) (start l : Z) (x : panic),
    str_ok s -> i64_ok start -> i64_ok l ->
    (substring p [VVarchar s; VInteger start; VInteger l] = Panic x <->
     x = PCharBoundary /\ start_index start < len s /\ 0 < l /\
     is_char_boundary s (start_index start) && is_char_boundary s (Z.min (start_index start + l) (len s)) = false).
Proof. exact substring3_panic_iff. Qed.
Print Assumptions C24_substring_panic_iff.

(** on ASCII text it never panics and returns the requested window *)
Theorem C24_substring_no_panic_ascii :
  forall (p : profile) (s : list Z) (start l : Z),
    ascii s -> str_ok s -> i64_ok start -> i64_ok l ->
    substring p [VVarchar s; VInteger start; VInteger l] =
    Ok (VVarchar (if (len s <=? start_index start) || (l <=? 0) then []
                  else firstn (Z.to_nat (Z.min (start_index start + l) (len s) - start_index start))
                              (skipn (Z.to_nat (start_index start)) s))).
Proof. exact substring_ascii_no_panic. Qed.
Print Assumptions C24_substring_no_panic_ascii.

Theorem C24_substring_no_panic_refuted :
  forall p,
    substring p [VVarchar [195; 169]; VInteger 2] = Panic PCharBoundary /\
    substring p [VVarchar [104; 195; 169; 108; 108; 111]; VInteger 2; VInteger 1] = Panic PCharBoundary.
Proof. exact substring_no_panic_refuted. Qed.
Print Assumptions C24_substring_no_panic_refuted.

(** * range_scan guards before BTreeMap::range *)
Theorem C24_range_plan_never_panics :
  forall (p : profile) (multi : bool) (start end_ : option sqlvalue) (incl_s incl_e : bool) (x : panic),
    range_plan p multi start end_ incl_s incl_e <> Panic x.
Proof. exact range_plan_never_panics. Qed.
Print Assumptions C24_range_plan_never_panics.

(** single-column indexes: for every pair of bounds (NaN, mixed types, inverted, degenerate) the guards
    establish the precondition of BTreeMap::range *)
Theorem C24_range_guards_imply_precondition :
  forall (p : profile) (start end_ : option sqlvalue) (incl_s incl_e : bool) (sb eb : bound),
    range_plan p false start end_ incl_s incl_e = Ok (PlanRange sb eb) -> btree_range_ok sb eb = true.
Proof. exact range_guards_single_column. Qed.
Print Assumptions C24_range_guards_imply_precondition.

Theorem C24_range_scan_single_column_no_panic :
  forall (p : profile) (nonempty : bool) (start end_ : option sqlvalue) (incl_s incl_e : bool),
    range_scan_outcome p false nonempty start end_ incl_s incl_e = Ok tt.
Proof. exact range_scan_single_column_no_panic. Qed.
Print Assumptions C24_range_scan_single_column_no_panic.

(** multi-column indexes: true when the start bound is used as given *)
Theorem C24_range_guards_multi_column :
  forall (p : profile) (start end_ : option sqlvalue) (incl_s incl_e : bool) (sb eb : bound),
    multi_start_unchanged p start incl_s = true ->
    range_plan p true start end_ incl_s incl_e = Ok (PlanRange sb eb) -> btree_range_ok sb eb = true.
Proof. exact range_guards_multi_column. Qed.
Print Assumptions C24_range_guards_multi_column.

(** ... and false otherwise: [d > 1.5 AND d < 1.5000000000000002] on an index (d, a) *)
Theorem C24_range_guards_multi_column_refuted :
  forall p,
    range_plan p true (Some (VDouble 4609434218613702656)) (Some (VDouble 4609434218613702657)) false false
    = Ok (PlanRange (BIncluded [VDouble 4609434218613702658]) (BExcluded [VDouble 4609434218613702657])) /\
    btree_range_ok (BIncluded [VDouble 4609434218613702658]) (BExcluded [VDouble 4609434218613702657]) = false /\
    range_scan_outcome p true true (Some (VDouble 4609434218613702656)) (Some (VDouble 4609434218613702657)) false false
    = Panic PRangeOrder /\
    multi_start_unchanged p (Some (VDouble 4609434218613702656)) false = false.
Proof. exact range_guards_multi_column_refuted. Qed.
Print Assumptions C24_range_guards_multi_column_refuted.
