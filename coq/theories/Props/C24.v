(** C24 — Statement execution never panics and never silently wraps numbers.
    Only pinned statements, each closed by [exact] of a lemma proved in Mech/*Laws.v.

    Model: Mech/Arith.v (operators, unary minus, ABS, MOD, SUM/AVG accumulation, columnar sums,
    SUBSTRING, range_scan guards) for the code AS REPAIRED by the C24 fix commits: checked integer
    arithmetic, checked UNSIGNED conversion, exact DIV, complete match arms in [/], i128 columnar sums,
    SUBSTRING by characters, re-checked range bounds.  Every former [_refuted] witness is now a positive
    statement ([*_former_witnesses]); the theorems hold for ALL inputs, in every build.
    [profile] (Debug / Release) only governs the remaining unchecked row counters. *)
From Coq Require Import ZArith List Bool.
From VibeSQL Require Import Value.SqlValue Mech.F64 Mech.Arith Mech.ArithLaws Mech.AggLaws Mech.StrRangeLaws.
Import ListNotations.
Open Scope Z_scope.

(** * + - * on integer variants (INTEGER, SMALLINT, BIGINT, UNSIGNED, BOOLEAN) *)

(** the exact mathematical result when it fits i64, an out-of-range error otherwise *)
Theorem C24_arith_exact_or_out_of_range :
  forall (temporal : bool -> sqlvalue -> sqlvalue -> res sqlvalue) (o : aop) (l r : sqlvalue) (a b : Z),
    to_Z l = Some a -> to_Z r = Some b ->
    unsigned_out_of_range l = false -> unsigned_out_of_range r = false ->
    arith3 temporal o l r = (if fits_i64 (z_op o a b) then Ok (VInteger (z_op o a b)) else Err EUnsupported).
Proof. exact arith_exact_or_out_of_range. Qed.
Print Assumptions C24_arith_exact_or_out_of_range.

(** whatever [+ - *] returns on integer operands is the exact result *)
Theorem C24_arith_exact_or_error :
  forall (temporal : bool -> sqlvalue -> sqlvalue -> res sqlvalue) (o : aop) (l r : sqlvalue) (a b : Z) (v : sqlvalue),
    to_Z l = Some a -> to_Z r = Some b ->
    unsigned_out_of_range l = false -> unsigned_out_of_range r = false ->
    arith3 temporal o l r = Ok v -> v = VInteger (z_op o a b) /\ fits_i64 (z_op o a b) = true.
Proof. exact arith_exact_or_error. Qed.
Print Assumptions C24_arith_exact_or_error.

(** an UNSIGNED operand above i64::MAX gives an error, never a reinterpreted value *)
Theorem C24_arith_unsigned_out_of_range_is_error :
  forall (temporal : bool -> sqlvalue -> sqlvalue -> res sqlvalue) (o : aop) (l r : sqlvalue) (a b : Z),
    to_Z l = Some a -> to_Z r = Some b ->
    unsigned_out_of_range l || unsigned_out_of_range r = true ->
    exists e, arith3 temporal o l r = Err e.
Proof. exact arith_unsigned_out_of_range_is_error. Qed.
Print Assumptions C24_arith_unsigned_out_of_range_is_error.

(** no panic for operands of ANY variant (the delegated date arithmetic is a hypothesis) *)
Theorem C24_arith_no_panic :
  forall (temporal : bool -> sqlvalue -> sqlvalue -> res sqlvalue) (o : aop) (l r : sqlvalue) (x : panic),
    (forall is_add l' r' y, temporal is_add l' r' <> Panic y) ->
    arith3 temporal o l r <> Panic x.
Proof. exact arith_never_panics. Qed.
Print Assumptions C24_arith_no_panic.

(** the inputs that used to panic (debug) / wrap (release) / be reinterpreted *)
Theorem C24_arith_former_witnesses :
  arith3 no_temporal OAdd (VInteger i64_max) (VInteger 1) = Err EUnsupported /\
  arith3 no_temporal OSub (VInteger i64_min) (VInteger 1) = Err EUnsupported /\
  arith3 no_temporal OMul (VInteger 3037000500) (VInteger 3037000500) = Err EUnsupported /\
  arith3 no_temporal OMul (VInteger i64_max) (VInteger 2) = Err EUnsupported /\
  arith3 no_temporal OAdd (VUnsigned (2 ^ 64 - 1)) (VInteger 0) = Err EConversion.
Proof. exact arith_former_witnesses. Qed.
Print Assumptions C24_arith_former_witnesses.

(** * % , DIV, / *)
Theorem C24_modulo_exact :
  forall (l r : sqlvalue) (a b : Z),
    to_Z l = Some a -> to_Z r = Some b ->
    unsigned_out_of_range l = false -> unsigned_out_of_range r = false ->
    modulo l r = Ok (if b =? 0 then VNull else VInteger (Z.rem a b)).
Proof. exact modulo_exact. Qed.
Print Assumptions C24_modulo_exact.

Theorem C24_modulo_never_panics : forall (l r : sqlvalue) (x : panic), modulo l r <> Panic x.
Proof. exact modulo_never_panics. Qed.
Print Assumptions C24_modulo_never_panics.

(** DIV is exact i64 division *)
Theorem C24_integer_divide_exact :
  forall (l r : sqlvalue) (a b : Z),
    to_Z l = Some a -> to_Z r = Some b ->
    unsigned_out_of_range l = false -> unsigned_out_of_range r = false ->
    integer_divide l r =
    (if b =? 0 then Err EDivisionByZero
     else if (a =? i64_min) && (b =? -1) then Err EUnsupported
     else Ok (VInteger (Z.quot a b))).
Proof. exact integer_divide_exact. Qed.
Print Assumptions C24_integer_divide_exact.

Theorem C24_integer_divide_never_panics : forall (l r : sqlvalue) (x : panic), integer_divide l r <> Panic x.
Proof. exact integer_divide_never_panics. Qed.
Print Assumptions C24_integer_divide_never_panics.

Theorem C24_integer_divide_former_witnesses :
  integer_divide (VInteger 9007199254740993) (VInteger 1) = Ok (VInteger 9007199254740993) /\
  integer_divide (VInteger i64_min) (VInteger (-1)) = Err EUnsupported /\
  integer_divide (VInteger (-7)) (VInteger 2) = Ok (VInteger (-3)).
Proof. exact integer_divide_former_witnesses. Qed.
Print Assumptions C24_integer_divide_former_witnesses.

(** [/] never panics: any operands, either mode *)
Theorem C24_divide_never_panics :
  forall (m : sqlmode) (l r : sqlvalue) (x : panic), divide m l r <> Panic x.
Proof. exact divide_never_panics. Qed.
Print Assumptions C24_divide_never_panics.

Theorem C24_divide_former_witnesses :
  divide MySQL (VFloat 1069547520) (VInteger 2) = Ok (VNumeric 4604930618986332160) /\
  divide SQLite (VBoolean true) (VNumeric 4609434218613702656) = Ok (VFloat 1065353216).
Proof. exact divide_former_witnesses. Qed.
Print Assumptions C24_divide_former_witnesses.

(** * unary minus, ABS, MOD() *)
Theorem C24_unary_minus_exact_or_error :
  forall (v : sqlvalue) (z : Z),
    wf v = true -> int3 v -> to_Z v = Some z ->
    unary_minus v = (if neg_overflow_class v then Err EUnsupported else Ok (same_variant_with v (- z))).
Proof. exact unary_minus_exact_or_error. Qed.
Print Assumptions C24_unary_minus_exact_or_error.

Theorem C24_unary_minus_never_panics : forall (v : sqlvalue) (x : panic), unary_minus v <> Panic x.
Proof. exact unary_minus_never_panics. Qed.
Print Assumptions C24_unary_minus_never_panics.

Theorem C24_abs_exact_or_error :
  forall (v : sqlvalue) (z : Z),
    wf v = true -> int3 v -> to_Z v = Some z ->
    abs_fn v = (if neg_overflow_class v then Err EUnsupported else Ok (same_variant_with v (Z.abs z))).
Proof. exact abs_exact_or_error. Qed.
Print Assumptions C24_abs_exact_or_error.

Theorem C24_abs_never_panics : forall (v : sqlvalue) (x : panic), abs_fn v <> Panic x.
Proof. exact abs_never_panics. Qed.
Print Assumptions C24_abs_never_panics.

Theorem C24_unary_former_witnesses :
  unary_minus (VInteger i64_min) = Err EUnsupported /\
  unary_minus (VSmallint (-32768)) = Err EUnsupported /\
  abs_fn (VBigint i64_min) = Err EUnsupported /\
  unary_minus (VInteger i64_max) = Ok (VInteger (i64_min + 1)).
Proof. exact unary_former_witnesses. Qed.
Print Assumptions C24_unary_former_witnesses.

Theorem C24_mod_fn_never_panics : forall (a b : sqlvalue) (x : panic), mod_fn a b <> Panic x.
Proof. exact mod_fn_never_panics. Qed.
Print Assumptions C24_mod_fn_never_panics.

Theorem C24_mod_fn_exact :
  forall x y : Z, mod_fn (VInteger x) (VInteger y) = Ok (if y =? 0 then VNull else VInteger (Z.rem x y)).
Proof. exact mod_fn_exact. Qed.
Print Assumptions C24_mod_fn_exact.

(** * SUM / AVG accumulation (AggregateAccumulator) on integer columns: the exact sum or NULL *)
Theorem C24_sum_exact_or_null :
  forall (temporal : bool -> sqlvalue -> sqlvalue -> res sqlvalue) (p : profile) (vs : list sqlvalue),
    int_col vs = true -> Z.of_nat (length vs) < 2 ^ 63 ->
    agg_sum temporal p false vs = Ok (if prefixes_fit 0 (ints_of vs) then exact_sum_value vs else VNull).
Proof. exact sum_exact_or_null. Qed.
Print Assumptions C24_sum_exact_or_null.

Theorem C24_sum_no_wrap :
  forall (temporal : bool -> sqlvalue -> sqlvalue -> res sqlvalue) (p : profile) (vs : list sqlvalue),
    int_col vs = true -> Z.of_nat (length vs) < 2 ^ 63 -> prefixes_fit 0 (ints_of vs) = true ->
    agg_sum temporal p false vs = Ok (exact_sum_value vs).
Proof. exact sum_no_wrap. Qed.
Print Assumptions C24_sum_no_wrap.

Theorem C24_avg_exact_or_null :
  forall (temporal : bool -> sqlvalue -> sqlvalue -> res sqlvalue) (p : profile) (vs : list sqlvalue),
    int_col vs = true -> Z.of_nat (length vs) < 2 ^ 63 ->
    agg_avg temporal p false vs =
    Ok (match ints_of vs with
        | [] => VNull
        | zs => if prefixes_fit 0 zs
                then VNumeric (fdiv b64 (f_of_Z b64 (zsum zs)) (f_of_Z b64 (Z.of_nat (length zs))))
                else VNull
        end).
Proof. exact avg_exact_or_null. Qed.
Print Assumptions C24_avg_exact_or_null.

Theorem C24_prefixes_fit_nonneg :
  forall (s : Z) (zs : list Z),
    0 <= s -> Forall (fun z => 0 <= z) zs -> fits_i64 (s + zsum zs) = true -> prefixes_fit s zs = true.
Proof. exact prefixes_fit_nonneg. Qed.
Print Assumptions C24_prefixes_fit_nonneg.

Theorem C24_sum_former_witnesses :
  agg_sum no_temporal Debug false [VInteger i64_max; VInteger 1] = Ok VNull /\
  agg_sum no_temporal Release false [VInteger i64_max; VInteger 1] = Ok VNull /\
  agg_sum no_temporal Release false [VInteger i64_max; VInteger 1; VInteger (-5)] = Ok VNull.
Proof. exact sum_former_witnesses. Qed.
Print Assumptions C24_sum_former_witnesses.

(** * columnar sums *)
Theorem C24_simd_sum_exact : forall col : list Z, fits_i64 (zsum col) = true -> simd_sum_i64 col = zsum col.
Proof. exact simd_sum_exact. Qed.
Print Assumptions C24_simd_sum_exact.

(** documented saturation of the i64 helper (the aggregate itself uses the wide sum) *)
Theorem C24_simd_sum_saturates :
  forall col : list Z, fits_i64 (zsum col) = false -> simd_sum_i64 col = (if zsum col <? 0 then i64_min else i64_max).
Proof. exact simd_sum_saturates. Qed.
Print Assumptions C24_simd_sum_saturates.

(** the columnar SUM of an integer column is the f64 nearest to the EXACT sum, for every column,
    every batch size, every build *)
Theorem C24_simd_aggregate_exact :
  forall (p : profile) (bsize : nat) (vs : list sqlvalue),
    int_col vs = true -> Z.of_nat (length vs) < 2 ^ 63 ->
    simd_aggregate_i64 p bsize AggSum vs =
    Ok (match ints_of vs with [] => VNull | zs => VDouble (f_of_Z b64 (zsum zs)) end).
Proof. exact simd_aggregate_exact. Qed.
Print Assumptions C24_simd_aggregate_exact.

Theorem C24_columnar_aggregate_never_panics :
  forall (p : profile) (bsize : nat) (op : aggop) (vs : list sqlvalue) (x : panic),
    Z.of_nat (length vs) < 2 ^ 63 -> columnar_aggregate p bsize op vs <> Panic x.
Proof. exact columnar_aggregate_never_panics. Qed.
Print Assumptions C24_columnar_aggregate_never_panics.

Theorem C24_simd_aggregate_former_witness :
  simd_aggregate_i64 Debug 1024 AggSum [VInteger i64_max; VInteger 1] = Ok (VDouble 4890909195324358656) /\
  simd_aggregate_i64 Release 1024 AggSum [VInteger i64_max; VInteger 1] = Ok (VDouble 4890909195324358656).
Proof. exact simd_aggregate_former_witness. Qed.
Print Assumptions C24_simd_aggregate_former_witness.

(** * SUBSTRING *)
Theorem C24_substring_no_panic : forall (args : list sqlvalue) (x : panic), substring args <> Panic x.
Proof. exact substring_never_panics. Qed.
Print Assumptions C24_substring_no_panic.

(** the window is counted in characters of the UTF-8 text *)
Theorem C24_substring_spec :
  forall (s : list Z) (start l : Z),
    substring [VVarchar s; VInteger start; VInteger l] =
    Ok (VVarchar (if l <=? 0 then [] else concat (takeZ l (skipZ (start_index start) (utf8_chars s))))).
Proof. exact substring3_spec. Qed.
Print Assumptions C24_substring_spec.

(** the characters partition the bytes *)
Theorem C24_utf8_chars_concat : forall s : list Z, concat (utf8_chars s) = s.
Proof. exact utf8_chars_concat. Qed.
Print Assumptions C24_utf8_chars_concat.

Theorem C24_substring_ascii :
  forall (s : list Z) (start l : Z), ascii s ->
    substring [VVarchar s; VInteger start; VInteger l] =
    Ok (VVarchar (if l <=? 0 then [] else takeZ l (skipZ (start_index start) s))).
Proof. exact substring_ascii. Qed.
Print Assumptions C24_substring_ascii.

Theorem C24_substring_former_witnesses :
  substring [VVarchar [195; 169]; VInteger 2] = Ok (VVarchar []) /\
  substring [VVarchar [104; 195; 169; 108; 108; 111]; VInteger 2; VInteger 1] = Ok (VVarchar [195; 169]) /\
  substring [VVarchar [104; 195; 169; 108; 108; 111]; VInteger 3; VInteger 2] = Ok (VVarchar [108; 108]).
Proof. exact substring_former_witnesses. Qed.
Print Assumptions C24_substring_former_witnesses.

(** * range_scan guards before BTreeMap::range *)
Theorem C24_range_plan_never_panics :
  forall (p : profile) (multi : bool) (start end_ : option sqlvalue) (incl_s incl_e : bool) (x : panic),
    range_plan p multi start end_ incl_s incl_e <> Panic x.
Proof. exact range_plan_never_panics. Qed.
Print Assumptions C24_range_plan_never_panics.

(** for single-column and multi-column indexes and every pair of bounds the guards establish the
    precondition of BTreeMap::range *)
Theorem C24_range_guards_imply_precondition :
  forall (p : profile) (multi : bool) (start end_ : option sqlvalue) (incl_s incl_e : bool) (sb eb : bound),
    range_plan p multi start end_ incl_s incl_e = Ok (PlanRange sb eb) -> btree_range_ok sb eb = true.
Proof. exact range_guards_imply_precondition. Qed.
Print Assumptions C24_range_guards_imply_precondition.

Theorem C24_range_scan_never_panics :
  forall (p : profile) (multi nonempty : bool) (start end_ : option sqlvalue) (incl_s incl_e : bool) (x : panic),
    range_scan_outcome p multi nonempty start end_ incl_s incl_e <> Panic x.
Proof. exact range_scan_never_panics. Qed.
Print Assumptions C24_range_scan_never_panics.

Theorem C24_range_former_witness :
  forall p,
    range_plan p true (Some (VDouble 4609434218613702656)) (Some (VDouble 4609434218613702657)) false false = Ok PlanEmpty /\
    range_scan_outcome p true true (Some (VDouble 4609434218613702656)) (Some (VDouble 4609434218613702657)) false false = Ok tt.
Proof. exact range_former_witness. Qed.
Print Assumptions C24_range_former_witness.
