(** C07 — Aggregates and grouping follow their SQL definitions on every input.
    Theorems about the model of AggregateAccumulator (new / accumulate / finalize / combine) and of
    hash grouping, for every list of argument values and every keyed row list.  Only pinned
    statements, each closed by [exact]. *)
From Coq Require Import List ZArith Bool Permutation.
From VibeSQL Require Import Sem.Syntax Sem.Rel Mech.Accumulator Mech.AccumulatorLaws.
Import ListNotations.
Open Scope Z_scope.

(** COUNT(x) [DISTINCT] = number of (distinct) non-NULL argument values; never NULL *)
Theorem C07_count : forall (d : bool) (l : list value),
  acc_run FCount d l = ARVal (VInt (Z.of_nat (length (dd d [] (non_null l))))).
Proof. exact acc_count_spec. Qed.
Print Assumptions C07_count.

(** SUM(x) [DISTINCT] = sum of the (distinct) non-NULL values, NULL when there is none *)
Theorem C07_sum : forall (d : bool) (l : list value), all_ints l = true ->
  acc_run FSum d l = ARVal (match dd d [] (non_null l) with [] => VNull | vs => VInt (zsum_vals vs) end).
Proof. exact acc_sum_spec. Qed.
Print Assumptions C07_sum.

Theorem C07_sum_null_iff : forall (d : bool) (l : list value), all_ints l = true ->
  (acc_run FSum d l = ARVal VNull <-> non_null l = []).
Proof. exact sum_null_iff. Qed.
Print Assumptions C07_sum_null_iff.

(** AVG(x) [DISTINCT] = that sum divided by that count, NULL when there is none *)
Theorem C07_avg : forall (d : bool) (l : list value), all_ints l = true ->
  acc_run FAvg d l =
  match dd d [] (non_null l) with [] => ARVal VNull | vs => ARQuot (zsum_vals vs) (Z.of_nat (length vs)) end.
Proof. exact acc_avg_spec. Qed.
Print Assumptions C07_avg.

(** MIN / MAX: NULL iff there is no non-NULL argument, otherwise an argument value that bounds
    all the others (numbers among numbers, strings among strings), DISTINCT or not *)
Theorem C07_min : forall (d : bool) (l : list value), homog (non_null l) ->
  match acc_run FMin d l with
  | ARVal VNull => non_null l = []
  | ARVal m => In m l /\ m <> VNull /\ forall v, In v l -> v <> VNull -> acc_cmp m v <> Gt
  | ARQuot _ _ => False
  end.
Proof. exact acc_min_spec. Qed.
Print Assumptions C07_min.

Theorem C07_max : forall (d : bool) (l : list value), homog (non_null l) ->
  match acc_run FMax d l with
  | ARVal VNull => non_null l = []
  | ARVal m => In m l /\ m <> VNull /\ forall v, In v l -> v <> VNull -> acc_cmp m v <> Lt
  | ARQuot _ _ => False
  end.
Proof. exact acc_max_spec. Qed.
Print Assumptions C07_max.

(** merging partial accumulators (parallel aggregation) = accumulating the concatenation *)
Theorem C07_combine_count : forall l1 l2 : list value,
  option_map acc_finalize
    (acc_combine (fold_left acc_step l1 (acc_new FCount false)) (fold_left acc_step l2 (acc_new FCount false)))
  = Some (acc_run FCount false (l1 ++ l2)).
Proof. exact combine_count. Qed.
Print Assumptions C07_combine_count.

Theorem C07_combine_sum : forall l1 l2 : list value, all_ints l1 = true -> all_ints l2 = true ->
  option_map acc_finalize
    (acc_combine (fold_left acc_step l1 (acc_new FSum false)) (fold_left acc_step l2 (acc_new FSum false)))
  = Some (acc_run FSum false (l1 ++ l2)).
Proof. exact combine_sum. Qed.
Print Assumptions C07_combine_sum.

Theorem C07_combine_avg : forall l1 l2 : list value, all_ints l1 = true -> all_ints l2 = true ->
  option_map acc_finalize
    (acc_combine (fold_left acc_step l1 (acc_new FAvg false)) (fold_left acc_step l2 (acc_new FAvg false)))
  = Some (acc_run FAvg false (l1 ++ l2)).
Proof. exact combine_avg. Qed.
Print Assumptions C07_combine_avg.

(** GROUP BY: exactly one group per distinct key; the groups partition the rows; every group is
    non-empty and holds only rows of its key; rows with the same key (NULLs included) share a group *)
Theorem C07_group_keys_nodup : forall keyed : list (row * row), NoDup (map fst (group_rows keyed)).
Proof. exact group_keys_nodup. Qed.
Print Assumptions C07_group_keys_nodup.

Theorem C07_group_partition : forall keyed : list (row * row),
  Permutation (map snd keyed) (concat (map snd (group_rows keyed))).
Proof. exact group_partition. Qed.
Print Assumptions C07_group_partition.

Theorem C07_group_members : forall (keyed : list (row * row)) (k : row) (rs : list row),
  In (k, rs) (group_rows keyed) -> rs <> [] /\ forall r, In r rs -> In (k, r) keyed.
Proof. exact group_members. Qed.
Print Assumptions C07_group_members.

Theorem C07_same_key_one_group : forall (keyed : list (row * row)) (r1 r2 k : row),
  In (k, r1) keyed -> In (k, r2) keyed ->
  exists rs, In (k, rs) (group_rows keyed) /\ In r1 rs /\ In r2 rs.
Proof. exact null_keys_one_group. Qed.
Print Assumptions C07_same_key_one_group.

(** an aggregate query without GROUP BY returns exactly one row on every input (empty included) *)
Theorem C07_no_group_by_one_row : forall rows flt sels, length (agg_query rows flt [] false sels) = 1%nat.
Proof. exact no_group_by_one_row. Qed.
Print Assumptions C07_no_group_by_one_row.

Theorem C07_group_by_row_per_key : forall rows flt keys sels,
  let keyed := map (fun r => (map (col_of r) keys, r)) (filter (passes flt) rows) in
  length (agg_query rows flt keys true sels) = length (group_rows keyed)
  /\ NoDup (map fst (group_rows keyed)).
Proof. exact group_by_row_per_key. Qed.
Print Assumptions C07_group_by_row_per_key.

(** the reference evaluator's aggregates (Sem.Rel.eval_agg, used by C01/C06) are the same functions *)
Theorem C07_sem_count : forall d n l, eval_agg ACount d n l = Ok (VInt (spec_count d l)).
Proof. exact acc_agrees_with_sem_count. Qed.
Print Assumptions C07_sem_count.

Theorem C07_sem_sum : forall d n l, all_ints l = true -> eval_agg ASum d n l = Ok (spec_sum d l).
Proof. exact acc_agrees_with_sem_sum. Qed.
Print Assumptions C07_sem_sum.
