(** C34 — Row triggers fire once per affected row with the right row images.
    Only pinned statements, each closed by [exact] of a lemma proved in Store/TriggerLaws.v / Store/AtomicLaws.v.

    Vocabulary: [exec (S f) ctx d st = (d', log, o)] runs a statement at a depth the recursion guard admits
    ([step d st = exec guard_levels None d st] is a top-level statement); [log] is the firing list of the statement's
    own triggers, each entry the trigger with the OLD and NEW images it was given.  [spec_row trigs t tm ev (o, n)]:
    the row-level triggers found for table [t], timing [tm] and event [ev], in catalog order, whose WHEN condition is
    TRUE on the images; [spec_stmt]: the statement-level ones (none inside a trigger body).
    Order the code uses:  INSERT   stmt-BEFORE, then per row (BEFORE ROW, insert, AFTER ROW), stmt-AFTER   [spec_insert]
                          UPDATE / DELETE   stmt-BEFORE, BEFORE ROW of all rows, change, AFTER ROW of all rows,
                                            stmt-AFTER   [spec_two_pass]. *)
From Coq Require Import List ZArith Bool Permutation.
From VibeSQL Require Import Store.Trigger Store.Atomic Store.TriggerLaws Store.TriggerCount Store.AtomicLaws Store.AppliedLaws.
Import ListNotations.

Theorem C34_insert_fires_once : forall f ctx d t tb rows d' log n vrows,
  exec (S f) ctx d (SInsert t true rows) = (d', log, Ok n) ->
  get_table d t = Some tb -> validate_rows d tb ctx rows 0 [] = inr vrows ->
  log = spec_insert ctx (d_trigs d) t vrows /\ n = length vrows.
Proof. exact exec_insert_fires_once. Qed.
Print Assumptions C34_insert_fires_once.

Theorem C34_update_fires_once : forall f ctx d t asg w d' log n,
  exec (S f) ctx d (SUpdate t asg w) = (d', log, Ok n) ->
  exists d1 tb ups,
    (if is_none ctx then fire_stmt db (body_runner f) true (d_trigs d) t Before (EvUpdate (Some (map fst asg))) d else (d, [], None))
      = (d1, spec_stmt ctx (d_trigs d) t Before (EvUpdate (Some (map fst asg))), None)
    /\ get_table d1 t = Some tb
    /\ update_plan ctx d1 tb asg w = inr ups
    /\ log = spec_two_pass ctx (d_trigs d) t (EvUpdate (Some (map fst asg))) (images ups)
    /\ n = length ups.
Proof. exact exec_update_fires_once. Qed.
Print Assumptions C34_update_fires_once.

Theorem C34_delete_fires_once : forall f ctx d t w d' log n tb,
  exec (S f) ctx d (SDelete t w) = (d', log, Ok n) -> get_table d t = Some tb ->
  log = spec_two_pass ctx (d_trigs d) t EvDelete (delete_images ctx tb w).
Proof. exact exec_delete_fires_once. Qed.
Print Assumptions C34_delete_fires_once.

(** INSERT ... SELECT through the normal path (not SELECT * from a compatible table) fires like INSERT ... VALUES, over the
    source rows in the order the SELECT delivers them *)
Theorem C34_insert_select_fires_once : forall f ctx d t src star dst s d' log n vrows,
  exec (S f) ctx d (SInsertSel t src star) = (d', log, Ok n) ->
  get_table d t = Some dst -> get_table d src = Some s ->
  star && is_none (hd_error (triggers_for_table (d_trigs d) t EvInsert)) && bulk_eligible dst s = false ->
  validate_rows d dst ctx (map (map ELit) (select_order (tb_rows s))) 0 [] = inr vrows ->
  log = spec_insert ctx (d_trigs d) t vrows /\ n = length vrows.
Proof. exact exec_insert_select_fires_once. Qed.
Print Assumptions C34_insert_select_fires_once.

(** the images: INSERT row triggers see no OLD and as NEW a row the statement appended; DELETE row triggers see no NEW
    and as OLD a stored, selected row, and afterwards exactly the unselected rows remain (side conditions as in C11) *)
Theorem C34_insert_images : forall f ctx d t tb rows d' log n vrows,
  exec (S f) ctx d (SInsert t true rows) = (d', log, Ok n) -> frame_on f d t ->
  get_table d t = Some tb -> validate_rows d tb ctx rows 0 [] = inr vrows ->
  exists tb', get_table d' t = Some tb' /\ tb_rows tb' = tb_rows tb ++ vrows /\
    forall fi, In fi log -> t_gran (f_trig fi) = GRow ->
      f_old fi = None /\ exists r, f_new fi = Some r /\ In r vrows /\ In r (tb_rows tb').
Proof. exact exec_insert_images. Qed.
Print Assumptions C34_insert_images.

Theorem C34_delete_images : forall f ctx d t w d' log n tb,
  exec (S f) ctx d (SDelete t w) = (d', log, Ok n) -> frame_on f d t ->
  wf d -> get_table d t = Some tb -> references t tb = [] ->
  exists tb', get_table d' t = Some tb'
    /\ tb_rows tb' = map snd (filter (fun ir => negb (selected ctx w ir)) (indexed 0 (tb_rows tb)))
    /\ forall fi, In fi log -> t_gran (f_trig fi) = GRow ->
         f_new fi = None /\ exists i r, f_old fi = Some r /\ nth_error (tb_rows tb) i = Some r /\ selected ctx w (i, r) = true.
Proof. exact exec_delete_images. Qed.
Print Assumptions C34_delete_images.

(** OLD and NEW are the row's pre- and post-image: for a successful UPDATE whose trigger bodies leave the table alone,
    every row-level firing saw as OLD the row stored at some position before the statement and as NEW the row stored
    at that position afterwards *)
Theorem C34_update_images_pre_post : forall f ctx d t asg w d' log n tb,
  exec (S f) ctx d (SUpdate t asg w) = (d', log, Ok n) -> frame_on f d t ->
  wf d -> get_table d t = Some tb -> references t tb = [] ->
  exists tb', get_table d' t = Some tb' /\
    forall fi, In fi log -> t_gran (f_trig fi) = GRow ->
      exists i old new, f_old fi = Some old /\ f_new fi = Some new
                        /\ nth_error (tb_rows tb) i = Some old /\ nth_error (tb_rows tb') i = Some new.
Proof. exact exec_update_images_pre_post. Qed.
Print Assumptions C34_update_images_pre_post.

(** exactly once: in the list the code produces for UPDATE / DELETE (and for INSERT), a row trigger of the statement's
    table and event -- enabled, BEFORE or AFTER, trigger names distinct -- occurs once for every affected row that passes
    its gates ([gate] = UPDATE OF column changed, when both images exist, and WHEN is TRUE), and not more *)
Theorem C34_two_pass_exactly_once : forall trigs t ev, NoDup (map t_id trigs) -> forall ctx tr imgs,
  In tr trigs -> t_table tr = t -> event_match (t_event tr) ev = true -> t_enabled tr = true -> t_gran tr = GRow ->
  t_timing tr = Before \/ t_timing tr = After ->
  count_id (t_id tr) (spec_two_pass ctx trigs t ev imgs) = length (filter (gate tr) imgs).
Proof. exact two_pass_exactly_once. Qed.
Print Assumptions C34_two_pass_exactly_once.

Theorem C34_insert_exactly_once : forall trigs t ctx tr rows,
  NoDup (map t_id trigs) ->
  In tr trigs -> t_table tr = t -> t_event tr = EvInsert -> t_enabled tr = true -> t_gran tr = GRow ->
  t_timing tr = Before \/ t_timing tr = After ->
  count_id (t_id tr) (spec_insert ctx trigs t rows) = length (filter (fun r => when_fires tr None (Some r)) rows).
Proof. exact insert_exactly_once. Qed.
Print Assumptions C34_insert_exactly_once.

(** the two-pass order is a permutation of the per-row order: every (trigger, affected row) pair of the per-row
    specification occurs exactly as often in the list the code produces *)
Theorem C34_two_pass_permutation_of_per_row : forall ctx trigs t ev imgs,
  Permutation (spec_two_pass ctx trigs t ev imgs) (spec_per_row ctx trigs t ev imgs).
Proof. exact spec_two_pass_perm. Qed.
Print Assumptions C34_two_pass_permutation_of_per_row.

(** ... but it is not that order *)
Theorem C34_update_order_not_per_row_refuted :
  exists d s d' log n tb ups,
    step d s = (d', log, Ok n) /\ get_table d 0 = Some tb /\ update_plan None d tb [(1%nat, EAdd (ECol 1) 1%Z)] None = inr ups
    /\ log <> spec_per_row None (d_trigs d) 0 (EvUpdate (Some [1%nat])) (images ups)
    /\ Permutation log (spec_per_row None (d_trigs d) 0 (EvUpdate (Some [1%nat])) (images ups)).
Proof. exact update_order_not_per_row_refuted. Qed.
Print Assumptions C34_update_order_not_per_row_refuted.

(** zero affected rows: statement-level triggers still fire, once *)
Theorem C34_zero_rows_statement_triggers : forall ctx trigs t ev,
  spec_two_pass ctx trigs t ev [] = spec_stmt ctx trigs t Before ev ++ spec_stmt ctx trigs t After ev.
Proof. exact two_pass_zero_rows. Qed.
Print Assumptions C34_zero_rows_statement_triggers.

(** every firing of every outcome, at every depth: a trigger of the catalog, on the statement's table, for the
    statement's event, enabled, BEFORE or AFTER, WHEN condition TRUE on the images it saw; statement-level triggers
    see no images and never fire inside a trigger body *)
Theorem C34_firing_facts : forall fuel ctx d s d' log o f,
  exec fuel ctx d s = (d', log, o) -> In f log ->
  In (f_trig f) (d_trigs d)
  /\ t_table (f_trig f) = stmt_target s
  /\ event_match (t_event (f_trig f)) (stmt_event s) = true
  /\ t_enabled (f_trig f) = true
  /\ (t_timing (f_trig f) = Before \/ t_timing (f_trig f) = After)
  /\ when_fires (f_trig f) (f_old f) (f_new f) = true
  /\ (t_gran (f_trig f) = GStmt -> f_old f = None /\ f_new f = None /\ ctx = None).
Proof. exact firing_facts. Qed.
Print Assumptions C34_firing_facts.

(** UPDATE OF gating (repaired by C34-update-of-event-match; this was the known class update-of-trigger-never-fires):
    an UPDATE OF trigger is found exactly for UPDATE statements that assign one of its columns; whether it then fires
    for a row is [should_fire_update_of] inside [gate] of C34_two_pass_exactly_once *)
Theorem C34_update_of_needs_assigned_column : forall fuel ctx d s d' log o f cols,
  exec fuel ctx d s = (d', log, o) -> In f log -> t_event (f_trig f) = EvUpdate (Some cols) ->
  exists t asg w, s = SUpdate t asg w /\ exists c, In c cols /\ In c (map fst asg).
Proof. exact update_of_needs_assigned_column. Qed.
Print Assumptions C34_update_of_needs_assigned_column.

(** the former refutation, now positive: AFTER UPDATE OF (C1) fires for both rows of SET C1 = C1 + 1, only for the row
    whose C1 changes when the other row is assigned its old value, and not at all for SET C0 = C0 + 100 *)
Theorem C34_update_of_fires_when_column_changes :
  (exists d', step Witness2.d_upof Witness.upd = (d', spec_two_pass None (d_trigs Witness2.d_upof) 0 (EvUpdate (Some [1%nat]))
       [(Some [VInt 1; VInt 10], Some [VInt 1; VInt 11]); (Some [VInt 2; VInt 20], Some [VInt 2; VInt 21])], Ok 2)
     /\ length (spec_two_pass None (d_trigs Witness2.d_upof) 0 (EvUpdate (Some [1%nat]))
                  [(Some [VInt 1; VInt 10], Some [VInt 1; VInt 11]); (Some [VInt 2; VInt 20], Some [VInt 2; VInt 21])]) = 2%nat)
  /\ (exists d', step Witness2.d_upof (SUpdate 0 [(1%nat, ECase (CCmp OpEq (ECol 0) (ELit (VInt 1%Z))) (EAdd (ECol 1) 1%Z) (ECol 1))] None)
                  = (d', [mkFiring (Witness.tr 1 0 After (EvUpdate (Some [1%nat])) GRow None true true)
                                   (Some [VInt 1; VInt 10]) (Some [VInt 1; VInt 11]) None], Ok 2))
  /\ (exists d', step Witness2.d_upof (SUpdate 0 [(0%nat, EAdd (ECol 0) 100%Z)] None) = (d', [], Ok 2)).
Proof. exact update_of_fires_when_column_changes. Qed.
Print Assumptions C34_update_of_fires_when_column_changes.

(** INSERT ... SELECT * (repaired by C34-bulk-transfer-respects-triggers; this was the known class
    insert-select-bulk-skips-triggers): the bulk-transfer path is entered only when the destination has no INSERT trigger,
    so firing nothing is the specification list; with a trigger the statement takes the normal path and fires it *)
Theorem C34_bulk_path_fires_as_specified : forall fuel ctx d t src dst s d' log o,
  exec fuel ctx d (SInsertSel t src true) = (d', log, o) ->
  get_table d t = Some dst -> get_table d src = Some s ->
  is_none (hd_error (triggers_for_table (d_trigs d) t EvInsert)) && bulk_eligible dst s = true ->
  log = [] /\ forall rows, spec_insert ctx (d_trigs d) t rows = [].
Proof. exact exec_bulk_path_fires_as_specified. Qed.
Print Assumptions C34_bulk_path_fires_as_specified.

Theorem C34_insert_select_star_fires_triggers :
  exists d', step Witness2.d_bulk (SInsertSel 0 2 true)
             = (d', spec_insert None (d_trigs Witness2.d_bulk) 0 [[VInt 5; VInt 50]], Ok 1)
  /\ length (spec_insert None (d_trigs Witness2.d_bulk) 0 [[VInt 5; VInt 50]]) = 1%nat.
Proof. exact insert_select_star_fires_triggers. Qed.
Print Assumptions C34_insert_select_star_fires_triggers.

(** WHEN on statement-level triggers (repaired by C34-statement-trigger-when; this was the known class
    statement-trigger-when-errors): the condition is evaluated against an empty row, TRUE fires, anything else does not *)
Theorem C34_stmt_when_evaluated_on_empty_row : forall c,
  eval_when c None None =
  match eval_cond (mkEnv (Some []) (Some (None, None))) c with
  | RBool (Some b) => Some b | RBool None => Some false | _ => None
  end.
Proof. exact eval_when_no_row. Qed.
Print Assumptions C34_stmt_when_evaluated_on_empty_row.

Theorem C34_stmt_trigger_when_gates :
  (exists d' f, step Witness2.d_swhen (SDelete 0 (Some (CCmp OpEq (ECol 0) (ELit (VInt 1%Z))))) = (d', [f], Ok 1)
                /\ f_old f = None /\ f_new f = None /\ t_gran (f_trig f) = GStmt)
  /\ (exists d', step (mkDb [Witness.t0; Witness.aud]
                          [Witness.tr 1 0 After EvDelete GStmt (Some (CCmp OpEq (ELit (VInt 1%Z)) (ELit (VInt 2%Z)))) false false])
                     (SDelete 0 (Some (CCmp OpEq (ECol 0) (ELit (VInt 1%Z))))) = (d', [], Ok 1)).
Proof. exact stmt_trigger_when_gates. Qed.
Print Assumptions C34_stmt_trigger_when_gates.

(** a fact about the code, outside the property's wording (which speaks of the statement's own table): rows removed by
    a referential action fire no trigger of the child table *)
Theorem C34_cascade_fires_no_child_trigger :
  exists d s d' log n,
    step d s = (d', log, Ok n) /\ log = []
    /\ child_rows d 3 = [[VInt 7; VInt 1]; [VInt 8; VInt 1]] /\ child_rows d' 3 = []
    /\ exists tr, In tr (d_trigs d) /\ t_table tr = 3%nat /\ t_event tr = EvDelete /\ t_gran tr = GRow /\ t_enabled tr = true.
Proof. exact cascade_fires_no_child_trigger. Qed.
Print Assumptions C34_cascade_fires_no_child_trigger.

(** a failing trigger makes the whole statement fail without changing any table -- outside the classes of C11 *)
Theorem C34_failing_trigger_aborts : forall d st d' log s c m,
  step d st = (d', log, Err s c m) -> wf d -> trigger_cause c = true ->
  known_class log (Err s c m) = false -> observe d' = observe d.
Proof. exact failing_trigger_aborts. Qed.
Print Assumptions C34_failing_trigger_aborts.

Theorem C34_failing_trigger_aborts_refuted : exists d st, wf d /\ changed_after_error d st (AtAfterRow 1) 1.
Proof. exact known_insert_after_row_trigger. Qed.
Print Assumptions C34_failing_trigger_aborts_refuted.

(** the recursion guard admits exactly [guard_levels] nested firings (the constant is re-read from the source: 16) *)
Theorem C34_recursion_guard_boundary :
  (let '(d', _, o) := step (Witness2.d_rec (Z.of_nat guard_levels)) Witness2.ins1 in (o, length (child_rows d' 0)))
    = (Ok 1, guard_levels)
  /\ (let '(d', _, o) := step (Witness2.d_rec (Z.of_nat guard_levels + 1)) Witness2.ins1 in
      (is_none (match o with Ok _ => None | Err _ _ _ => Some tt end), length (child_rows d' 0))) = (false, 0%nat).
Proof. exact recursion_guard_boundary. Qed.
Print Assumptions C34_recursion_guard_boundary.
