(** C34 — Row triggers fire once per affected row with the right row images.
    Only pinned statements, each closed by [exact] of a lemma proved in Store/TriggerLaws.v / Store/AtomicLaws.v.

    Vocabulary: [exec (S f) ctx d st = (d', log, o)] runs a statement at a depth the recursion guard admits
    ([step d st = exec guard_levels None d st] is a top-level statement); [log] is the firing list of the statement's
    own triggers, each entry the trigger with the OLD and NEW images it was given.  [spec_row trigs t tm ev (o, n)]:
    the row-level triggers found for table [t], timing [tm] and event [ev], in catalog order, whose WHEN condition is
    TRUE on the images; [spec_stmt]: the statement-level ones (none inside a trigger body).
    Order the code uses:  INSERT   stmt-BEFORE, then per row (BEFORE ROW, insert, AFTER ROW), stmt-AFTER   [spec_insert]
                          UPDATE / DELETE   stmt-BEFORE, BEFORE ROW of all rows, change, AFTER ROW of all rows,
                                            stmt-AFTER   [spec_two_pass]. *)
From Coq Require Import List ZArith Bool Permutation.
From VibeSQL Require Import Store.Trigger Store.Atomic Store.TriggerLaws Store.TriggerCount Store.AtomicLaws Store.AppliedLaws.
Import ListNotations.

Theorem C34_insert_fires_once : forall f ctx d t tb rows d' log n vrows,
  exec (S f) ctx d (SInsert t true rows) = (d', log, Ok n) ->
  get_table d t = Some tb -> validate_rows d tb ctx rows 0 [] = inr vrows ->
  log = spec_insert ctx (d_trigs d) t vrows /\ n = length vrows.
Proof. exact exec_insert_fires_once. Qed.
Print Assumptions C34_insert_fires_once.

Theorem C34_update_fires_once : forall f ctx d t asg w d' log n,
  exec (S f) ctx d (SUpdate t asg w) = (d', log, Ok n) ->
  exists d1 tb ups,
    (if is_none ctx then fire_stmt db (body_runner f) true (d_trigs d) t Before (EvUpdate None) d else (d, [], None))
      = (d1, spec_stmt ctx (d_trigs d) t Before (EvUpdate None), None)
    /\ get_table d1 t = Some tb
    /\ update_plan ctx d1 tb asg w = inr ups
    /\ log = spec_two_pass ctx (d_trigs d) t (EvUpdate None) (images ups)
    /\ n = length ups.
Proof. exact exec_update_fires_once. Qed.
Print Assumptions C34_update_fires_once.

Theorem C34_delete_fires_once : forall f ctx d t w d' log n tb,
  exec (S f) ctx d (SDelete t w) = (d', log, Ok n) -> get_table d t = Some tb ->
  log = spec_two_pass ctx (d_trigs d) t EvDelete (delete_images ctx tb w).
Proof. exact exec_delete_fires_once. Qed.
Print Assumptions C34_delete_fires_once.

(** INSERT ... SELECT through the normal path (not SELECT * from a compatible table) fires like INSERT ... VALUES, over the
    source rows in the order the SELECT delivers them *)
Theorem C34_insert_select_fires_once : forall f ctx d t src star dst s d' log n vrows,
  exec (S f) ctx d (SInsertSel t src star) = (d', log, Ok n) ->
  get_table d t = Some dst -> get_table d src = Some s -> star && bulk_eligible dst s = false ->
  validate_rows d dst ctx (map (map ELit) (select_order (tb_rows s))) 0 [] = inr vrows ->
  log = spec_insert ctx (d_trigs d) t vrows /\ n = length vrows.
Proof. exact exec_insert_select_fires_once. Qed.
Print Assumptions C34_insert_select_fires_once.

(** the images: INSERT row triggers see no OLD and as NEW a row the statement appended; DELETE row triggers see no NEW
    and as OLD a stored, selected row, and afterwards exactly the unselected rows remain (side conditions as in C11) *)
Theorem C34_insert_images : forall f ctx d t tb rows d' log n vrows,
  exec (S f) ctx d (SInsert t true rows) = (d', log, Ok n) -> frame_on f d t ->
  get_table d t = Some tb -> validate_rows d tb ctx rows 0 [] = inr vrows ->
  exists tb', get_table d' t = Some tb' /\ tb_rows tb' = tb_rows tb ++ vrows /\
    forall fi, In fi log -> t_gran (f_trig fi) = GRow ->
      f_old fi = None /\ exists r, f_new fi = Some r /\ In r vrows /\ In r (tb_rows tb').
Proof. exact exec_insert_images. Qed.
Print Assumptions C34_insert_images.

Theorem C34_delete_images : forall f ctx d t w d' log n tb,
  exec (S f) ctx d (SDelete t w) = (d', log, Ok n) -> frame_on f d t ->
  wf d -> get_table d t = Some tb -> references t tb = [] ->
  exists tb', get_table d' t = Some tb'
    /\ tb_rows tb' = map snd (filter (fun ir => negb (selected ctx w ir)) (indexed 0 (tb_rows tb)))
    /\ forall fi, In fi log -> t_gran (f_trig fi) = GRow ->
         f_new fi = None /\ exists i r, f_old fi = Some r /\ nth_error (tb_rows tb) i = Some r /\ selected ctx w (i, r) = true.
Proof. exact exec_delete_images. Qed.
Print Assumptions C34_delete_images.

(** OLD and NEW are the row's pre- and post-image: for a successful UPDATE whose trigger bodies leave the table alone,
    every row-level firing saw as OLD the row stored at some position before the statement and as NEW the row stored
    at that position afterwards *)
Theorem C34_update_images_pre_post : forall f ctx d t asg w d' log n tb,
  exec (S f) ctx d (SUpdate t asg w) = (d', log, Ok n) -> frame_on f d t ->
  wf d -> get_table d t = Some tb -> references t tb = [] ->
  exists tb', get_table d' t = Some tb' /\
    forall fi, In fi log -> t_gran (f_trig fi) = GRow ->
      exists i old new, f_old fi = Some old /\ f_new fi = Some new
                        /\ nth_error (tb_rows tb) i = Some old /\ nth_error (tb_rows tb') i = Some new.
Proof. exact exec_update_images_pre_post. Qed.
Print Assumptions C34_update_images_pre_post.

(** exactly once: in the list the code produces for UPDATE / DELETE (and for INSERT), a row trigger of the statement's
    table and event -- enabled, BEFORE or AFTER, trigger names distinct -- occurs once for every affected row that passes
    its gates ([gate] = UPDATE OF column changed, when both images exist, and WHEN is TRUE), and not more *)
Theorem C34_two_pass_exactly_once : forall trigs t ev, NoDup (map t_id trigs) -> forall ctx tr imgs,
  In tr trigs -> t_table tr = t -> event_eqb (t_event tr) ev = true -> t_enabled tr = true -> t_gran tr = GRow ->
  t_timing tr = Before \/ t_timing tr = After ->
  count_id (t_id tr) (spec_two_pass ctx trigs t ev imgs) = length (filter (gate tr) imgs).
Proof. exact two_pass_exactly_once. Qed.
Print Assumptions C34_two_pass_exactly_once.

Theorem C34_insert_exactly_once : forall trigs t ctx tr rows,
  NoDup (map t_id trigs) ->
  In tr trigs -> t_table tr = t -> t_event tr = EvInsert -> t_enabled tr = true -> t_gran tr = GRow ->
  t_timing tr = Before \/ t_timing tr = After ->
  count_id (t_id tr) (spec_insert ctx trigs t rows) = length (filter (fun r => when_fires tr None (Some r)) rows).
Proof. exact insert_exactly_once. Qed.
Print Assumptions C34_insert_exactly_once.

(** the two-pass order is a permutation of the per-row order: every (trigger, affected row) pair of the per-row
    specification occurs exactly as often in the list the code produces *)
Theorem C34_two_pass_permutation_of_per_row : forall ctx trigs t ev imgs,
  Permutation (spec_two_pass ctx trigs t ev imgs) (spec_per_row ctx trigs t ev imgs).
Proof. exact spec_two_pass_perm. Qed.
Print Assumptions C34_two_pass_permutation_of_per_row.

(** ... but it is not that order *)
Theorem C34_update_order_not_per_row_refuted :
  exists d s d' log n tb ups,
    step d s = (d', log, Ok n) /\ get_table d 0 = Some tb /\ update_plan None d tb [(1%nat, EAdd (ECol 1) 1%Z)] None = inr ups
    /\ log <> spec_per_row None (d_trigs d) 0 (EvUpdate None) (images ups)
    /\ Permutation log (spec_per_row None (d_trigs d) 0 (EvUpdate None) (images ups)).
Proof. exact update_order_not_per_row_refuted. Qed.
Print Assumptions C34_update_order_not_per_row_refuted.

(** zero affected rows: statement-level triggers still fire, once *)
Theorem C34_zero_rows_statement_triggers : forall ctx trigs t ev,
  spec_two_pass ctx trigs t ev [] = spec_stmt ctx trigs t Before ev ++ spec_stmt ctx trigs t After ev.
Proof. exact two_pass_zero_rows. Qed.
Print Assumptions C34_zero_rows_statement_triggers.

(** every firing of every outcome, at every depth: a trigger of the catalog, on the statement's table, for the
    statement's event, enabled, BEFORE or AFTER, WHEN condition TRUE on the images it saw; statement-level triggers
    see no images and never fire inside a trigger body *)
Theorem C34_firing_facts : forall fuel ctx d s d' log o f,
  exec fuel ctx d s = (d', log, o) -> In f log ->
  In (f_trig f) (d_trigs d)
  /\ t_table (f_trig f) = stmt_target s
  /\ t_event (f_trig f) = stmt_event s
  /\ t_enabled (f_trig f) = true
  /\ (t_timing (f_trig f) = Before \/ t_timing (f_trig f) = After)
  /\ when_fires (f_trig f) (f_old f) (f_new f) = true
  /\ (t_gran (f_trig f) = GStmt -> f_old f = None /\ f_new f = None /\ ctx = None).
Proof. exact firing_facts. Qed.
Print Assumptions C34_firing_facts.

(** UPDATE OF gating: the code's intent (should_fire_update_of) is never reached *)
Theorem C34_update_of_never_fires : forall fuel ctx d s d' log o f cols,
  exec fuel ctx d s = (d', log, o) -> In f log -> t_event (f_trig f) <> EvUpdate (Some cols).
Proof. exact update_of_never_fires. Qed.
Print Assumptions C34_update_of_never_fires.

Theorem C34_update_of_fires_refuted :
  exists d s tr d' n,
    In tr (d_trigs d) /\ t_event tr = EvUpdate (Some [1%nat]) /\ t_enabled tr = true /\ t_table tr = stmt_target s
    /\ should_fire_update_of tr [VInt 1; VInt 10] [VInt 1; VInt 11] = true
    /\ step d s = (d', [], Ok n) /\ n = 2%nat.
Proof. exact update_of_fires_refuted. Qed.
Print Assumptions C34_update_of_fires_refuted.

(** INSERT ... SELECT * through the bulk-transfer path fires nothing *)
Theorem C34_bulk_path_fires_nothing : forall fuel ctx d t src dst s d' log o,
  exec fuel ctx d (SInsertSel t src true) = (d', log, o) ->
  get_table d t = Some dst -> get_table d src = Some s -> bulk_eligible dst s = true -> log = [].
Proof. exact exec_bulk_path_fires_nothing. Qed.
Print Assumptions C34_bulk_path_fires_nothing.

Theorem C34_bulk_path_skips_triggers_refuted :
  exists d s d' n rows,
    step d s = (d', [], Ok n) /\ n = 1%nat /\ rows = [[VInt 5; VInt 50]]
    /\ spec_insert None (d_trigs d) 0 rows <> [].
Proof. exact bulk_path_skips_triggers_refuted. Qed.
Print Assumptions C34_bulk_path_skips_triggers_refuted.

(** a statement-level trigger with a WHEN condition makes the statement fail *)
Theorem C34_stmt_trigger_with_when_fails : forall f d t asg w tr c,
  In tr (d_trigs d) -> t_table tr = t -> t_event tr = EvUpdate None -> t_timing tr = Before ->
  t_gran tr = GStmt -> t_enabled tr = true -> t_when tr = Some c ->
  exists d' log cz, exec (S f) None d (SUpdate t asg w) = (d', log, Err AtBeforeStmt cz 0).
Proof. exact stmt_trigger_with_when_fails_update. Qed.
Print Assumptions C34_stmt_trigger_with_when_fails.

Theorem C34_stmt_trigger_when_refuted :
  exists d s d' log c m, step d s = (d', log, Err AtAfterStmt c m) /\ observe d' <> observe d.
Proof. exact stmt_trigger_when_refuted. Qed.
Print Assumptions C34_stmt_trigger_when_refuted.

(** a fact about the code, outside the property's wording (which speaks of the statement's own table): rows removed by
    a referential action fire no trigger of the child table *)
Theorem C34_cascade_fires_no_child_trigger :
  exists d s d' log n,
    step d s = (d', log, Ok n) /\ log = []
    /\ child_rows d 3 = [[VInt 7; VInt 1]; [VInt 8; VInt 1]] /\ child_rows d' 3 = []
    /\ exists tr, In tr (d_trigs d) /\ t_table tr = 3%nat /\ t_event tr = EvDelete /\ t_gran tr = GRow /\ t_enabled tr = true.
Proof. exact cascade_fires_no_child_trigger. Qed.
Print Assumptions C34_cascade_fires_no_child_trigger.

(** a failing trigger makes the whole statement fail without changing any table -- outside the classes of C11 *)
Theorem C34_failing_trigger_aborts : forall d st d' log s c m,
  step d st = (d', log, Err s c m) -> wf d -> trigger_cause c = true ->
  known_class log (Err s c m) = false -> observe d' = observe d.
Proof. exact failing_trigger_aborts. Qed.
Print Assumptions C34_failing_trigger_aborts.

Theorem C34_failing_trigger_aborts_refuted : exists d st, wf d /\ changed_after_error d st (AtAfterRow 1) 1.
Proof. exact known_insert_after_row_trigger. Qed.
Print Assumptions C34_failing_trigger_aborts_refuted.

(** the recursion guard admits exactly [guard_levels] nested firings (the constant is re-read from the source: 16) *)
Theorem C34_recursion_guard_boundary :
  (let '(d', _, o) := step (Witness2.d_rec (Z.of_nat guard_levels)) Witness2.ins1 in (o, length (child_rows d' 0)))
    = (Ok 1, guard_levels)
  /\ (let '(d', _, o) := step (Witness2.d_rec (Z.of_nat guard_levels + 1)) Witness2.ins1 in
      (is_none (match o with Ok _ => None | Err _ _ _ => Some tt end), length (child_rows d' 0))) = (false, 0%nat).
Proof. exact recursion_guard_boundary. Qed.
Print Assumptions C34_recursion_guard_boundary.
