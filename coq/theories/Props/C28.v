(** C28 — Server messages are well-formed protocol frames.
    Model: Codec/Wire.v ([encode], [encode_notice_or_error], [put_cstring]; [oc] = build with overflow
    checks).  Independent parser and well-formedness: Codec/WireSpec.v ([parse_backend], [wf_backend],
    [typed_backend] = the Rust type invariants of a BackendMessage value).
    Only pinned statements, each closed by [exact]. *)
From Coq Require Import ZArith List Bool.
From VibeSQL Require Import Generated.Consts Codec.Wire Codec.WireSpec Codec.WireBytes Codec.WireEncodeLaws.
Import ListNotations.
Open Scope Z_scope.

(** ** exactly one frame: type byte, then a big-endian length equal to the number of bytes after the
    type byte (the 4 length bytes + the body), for every message whose frame fits the Int32 field *)
Theorem C28_encode_one_frame : forall oc m,
  typed_backend m = true -> 4 + body_size m < two31 ->
  exists body, encode oc m = Ok (tag_of m :: be32 (4 + blen body) ++ body)
               /\ 4 + blen body < two31
               /\ p_s32 (be32 (4 + blen body) ++ body) = Some (blen (be32 (4 + blen body) ++ body), body).
Proof. exact encode_one_frame_thm. Qed.
Print Assumptions C28_encode_one_frame.

(** the size condition is necessary: from 2^31 bytes on the length field no longer equals the byte count *)
Theorem C28_encode_one_frame_needs_size : forall oc m b,
  typed_backend m = true -> two31 <= 4 + body_size m < two64 -> encode oc m = Ok b ->
  exists t l0 l1 l2 l3 body, b = t :: l0 :: l1 :: l2 :: l3 :: body
                             /\ s32 l0 l1 l2 l3 <> blen (l0 :: l1 :: l2 :: l3 :: body).
Proof. exact encode_len_wraps_thm. Qed.
Print Assumptions C28_encode_one_frame_needs_size.

(** the bytes are literally: tag, length, body — the model's [encode] never panics below 2^64 bytes *)
Theorem C28_encode_shape : forall oc m,
  typed_backend m = true -> 4 + body_size m < two64 ->
  encode oc m = Ok (tag_of m :: be32 (4 + body_size m) ++ enc_body m).
Proof. exact encode_shape_thm. Qed.
Print Assumptions C28_encode_shape.

(** the encoder itself never panics in a wrapping build, and with overflow checks only at 2^64 bytes *)
Theorem C28_encode_no_panic : forall oc m,
  typed_backend m = true -> (encode oc m = Panic <-> (oc = true /\ two64 <= 4 + body_size m)).
Proof. exact encode_panic_iff_thm. Qed.
Print Assumptions C28_encode_no_panic.

(** ** the independent parser recovers the same fields, and leaves following bytes untouched *)
Theorem C28_parse_encode : forall oc m rest b,
  typed_backend m = true -> wf_backend m = true -> encode oc m = Ok b ->
  parse_backend (b ++ rest) = Some (m, rest).
Proof. exact parse_encode_thm. Qed.
Print Assumptions C28_parse_encode.

(** [wf_backend] is the weakest such condition: it is also necessary *)
Theorem C28_parse_encode_iff : forall oc m b rest,
  typed_backend m = true -> bytes_backend m = true -> bytes_ok rest = true -> 4 + body_size m < two64 ->
  encode oc m = Ok b ->
  (parse_backend (b ++ rest) = Some (m, rest) <-> wf_backend m = true).
Proof. exact parse_encode_iff_thm. Qed.
Print Assumptions C28_parse_encode_iff.

(** conversely, everything the parser accepts is the encoder's output for the parsed message *)
Theorem C28_encode_parse : forall oc b m rest,
  bytes_ok b = true -> parse_backend b = Some (m, rest) ->
  exists frame, b = frame ++ rest /\ encode oc m = Ok frame
                /\ wf_backend m = true /\ typed_backend m = true /\ bytes_backend m = true.
Proof. exact encode_parse_thm. Qed.
Print Assumptions C28_encode_parse.

(** ** "arbitrary strings and row values": FALSE for Strings with an embedded NUL, for more than 32767
    columns, and for field type 0 — concrete BackendMessage values whose frames do not parse back *)
Theorem C28_encode_refuted_nul :
  exists n v, no_nul n = false /\ bytes_backend (BParameterStatus n v) = true
              /\ typed_backend (BParameterStatus n v) = true /\ ~ parses_back (BParameterStatus n v).
Proof. exact encode_refuted_nul_thm. Qed.
Print Assumptions C28_encode_refuted_nul.

Theorem C28_encode_refuted_field_count :
  exists m, typed_backend m = true /\ bytes_backend m = true
            /\ (exists vs, m = BDataRow vs /\ Z.of_nat (length vs) = 32768)
            /\ match encode true m with Ok b => parse_backend b = None | _ => False end.
Proof. exact encode_refuted_field_count_thm. Qed.
Print Assumptions C28_encode_refuted_field_count.

Theorem C28_encode_refuted_field_type_zero :
  exists s, no_nul s = true /\ bytes_ok s = true /\ typed_backend (BErrorResponse [(0, s)]) = true
            /\ ~ parses_back (BErrorResponse [(0, s)]).
Proof. exact encode_refuted_field_type_zero_thm. Qed.
Print Assumptions C28_encode_refuted_field_type_zero.
