(** C12 — referential integrity holds after every statement.
    Only pinned statements, each closed by [exact] of a lemma proved in Store/Fk*Laws.v.
    Model: Store/Fk.v (executable transcription of the INSERT / UPDATE / DELETE / TRUNCATE /
    DROP TABLE / ALTER TABLE ADD FOREIGN KEY executors with their FOREIGN KEY handling). *)
From Coq Require Import List ZArith Bool Arith.
From VibeSQL Require Import Store.Fk Store.FkLaws Store.FkDeleteLaws Store.FkStepLaws Store.FkUpdateLaws
  Store.FkTheorems Store.FkTermination Store.FkWitness Store.FkActionLaws Store.FkCascadeLaws Store.FkDepthLaws Store.FkExamples.
Import ListNotations.

(* ---------------------------------------------------------------------------------------- *)
(** ** RI is an invariant of every history outside the known classes *)

(** RI d := every child row with a NULL-free foreign-key tuple has a parent row with that key *)
Theorem C12_ri_init : forall d : db, (forall t, In t d -> t_rows t = []) -> RI d.
Proof. exact ri_init. Qed.
Print Assumptions C12_ri_init.

Theorem C12_inv_init : forall d : db,
  NoDup (names d) -> schema_standard d = true -> pk_cols_ok d -> (forall t, In t d -> t_rows t = []) -> inv d.
Proof. exact inv_init. Qed.
Print Assumptions C12_inv_init.

(** one statement of any kind (INSERT, UPDATE, DELETE, TRUNCATE [CASCADE], DROP TABLE, ADD FOREIGN KEY),
    run with any catalog order that lists every table, outside the known classes *)
Theorem C12_ri_step : forall (ord : list nat) (d : db) (s : stmt),
  inv d -> ord_ok ord d -> RI d -> known_class ord s d = false -> RI (step_db ord d s).
Proof. exact ri_step. Qed.
Print Assumptions C12_ri_step.

(** ... and the structural invariants (unique table names, arity, standard schema, unique NULL-free
    primary keys) are kept as well, so the step theorem can be iterated *)
Theorem C12_step_keeps_invariants : forall (ord : list nat) (d : db) (s : stmt),
  inv d -> ord_ok ord d -> RI d -> known_class ord s d = false ->
  inv (step_db ord d s) /\ RI (step_db ord d s).
Proof. exact step_ok. Qed.
Print Assumptions C12_step_keeps_invariants.

Theorem C12_ri_history : forall (h : list (list nat * stmt)) (d : db),
  inv d -> RI d -> hist_ok d h -> inv (run d h) /\ RI (run d h).
Proof. exact ri_history. Qed.
Print Assumptions C12_ri_history.

Theorem C12_ri_reachable : forall (h : list (list nat * stmt)) (d : db),
  NoDup (names d) -> schema_standard d = true -> pk_cols_ok d -> (forall t, In t d -> t_rows t = []) ->
  hist_ok d h -> RI (run d h).
Proof. exact ri_reachable. Qed.
Print Assumptions C12_ri_reachable.

(** the executable predicate compared with the harness's own checker on every run is RI *)
Theorem C12_ri_b_iff_RI : forall d : db, inv d -> (ri_b d = true <-> RI d).
Proof. exact ri_b_RI. Qed.
Print Assumptions C12_ri_b_iff_RI.

(* ---------------------------------------------------------------------------------------- *)
(** ** What the actions do *)

(** a successful check_no_child_references (any mixture of CASCADE / SET NULL / SET DEFAULT below the
    row, any depth, self references included) that passes none of the marked places: rows were only
    dropped once nothing referenced their key, other rows only had cells set to NULL ([good]), and
    nothing references the checked parent key any more *)
Theorem C12_cascade_check_spec : forall fuel ord p prow d ev d' ev' pt pk,
  inv d -> ord_ok ord d -> get_table d p = Some pt -> t_pk pt = Some pk ->
  check fuel ord p prow (d, ev) = OOk (d', ev') -> ev' = ev ->
  good d d' /\ unref d' p (proj pk prow).
Proof. exact cascade_check_spec. Qed.
Print Assumptions C12_cascade_check_spec.

(** the whole DELETE statement *)
Theorem C12_delete_good : forall fuel ord d t wh d' ev r,
  inv d -> ord_ok ord d -> exec_delete fuel ord d t wh = ((d', ev), r) -> ev = [] -> good d d'.
Proof. exact exec_delete_good. Qed.
Print Assumptions C12_delete_good.

(** CASCADE deletes nothing but the referencing rows, transitively: every row of any table that an
    accepted DELETE outside the known classes removed was selected by the WHERE clause or referenced
    an already doomed row through an ON DELETE CASCADE key (judged on the database BEFORE the
    statement); every other row is still there with its primary key, its cells kept or set to NULL.
    (dshrink D d d' pairs the tables of d and d' and the rows of each: dropped rows satisfy D.) *)
Theorem C12_delete_drops_only_doomed : forall fuel ord d t wh d' ev r,
  inv d -> ord_ok ord d -> exec_delete fuel ord d t wh = ((d', ev), r) -> ev = [] ->
  dshrink (fun x row => doomed d t (selected_rows d t wh) (t_name x) row) d d'.
Proof. exact delete_drops_only_doomed. Qed.
Print Assumptions C12_delete_drops_only_doomed.

(** [good] transitions keep RI *)
Theorem C12_good_keeps_ri : forall d d' : db, inv d -> RI d -> good d d' -> RI d'.
Proof. exact ri_good. Qed.
Print Assumptions C12_good_keeps_ri.

(** NO ACTION (and RESTRICT): refused iff a referencing row exists; nothing is touched either way *)
Theorem C12_no_action_spec : forall fuel ord d p pt pk prow ev,
  NoDup (names d) -> ord_ok ord d -> get_table d p = Some pt -> t_pk pt = Some pk -> all_no_action d p ->
  (referenced d p (proj pk prow) -> check (S fuel) ord p prow (d, ev) = OErr EConstraint (d, ev))
  /\ (~ referenced d p (proj pk prow) -> check (S fuel) ord p prow (d, ev) = OOk (d, ev)).
Proof. exact no_action_spec. Qed.
Print Assumptions C12_no_action_spec.

(** SET NULL: exactly the foreign-key columns of exactly the referencing rows, in place *)
Theorem C12_set_null_exact : forall cn fk k d ev ct,
  get_table d cn = Some ct ->
  (forall r, In r (t_rows ct) -> refs fk k r = true -> notnull_okb ct (null_cols (fk_cols fk) r) = true) ->
  set_null cn fk k (d, ev) =
  OOk (set_rows d cn (map (fun r => if refs fk k r then null_cols (fk_cols fk) r else r) (t_rows ct)), ev).
Proof. exact set_null_exact. Qed.
Print Assumptions C12_set_null_exact.

Theorem C12_set_null_not_null_fails : forall cn fk k d ev ct r,
  get_table d cn = Some ct -> In r (t_rows ct) -> refs fk k r = true ->
  (forall x, In x (t_rows ct) -> refs fk k x = true -> notnull_okb ct (null_cols (fk_cols fk) x) = false) ->
  exists d', set_null cn fk k (d, ev) = OErr EOther (d', ev).
Proof. exact set_null_not_null_fails. Qed.
Print Assumptions C12_set_null_not_null_fails.

(** one ON UPDATE check (CASCADE / SET NULL / SET DEFAULT-NULL children of one parent key change),
    row by row: every foreign-key tuple of every child row is kept, or contains NULL, or went from the
    old key to the new key; no row keeps the old key *)
Theorem C12_update_check_spec : forall ord t old new d ev d' ev' pt pk,
  inv d -> ord_ok ord d -> get_table d t = Some pt -> t_pk pt = Some pk ->
  has_null (proj pk old) = false ->
  fk_update_check ord t old new (d, ev) = OOk (d', ev') -> ev' = ev ->
  moved_db t (proj pk old) (proj pk new) d d'.
Proof. exact update_check_moved. Qed.
Print Assumptions C12_update_check_spec.

(* ---------------------------------------------------------------------------------------- *)
(** ** Orphaning statements are rejected *)

Theorem C12_insert_orphan_rejected : forall d t tb rs0 r fk,
  inv d -> get_table d t = Some tb -> In r (map (apply_defaults_from tb 0) rs0) -> In fk (t_fks tb) ->
  has_null (proj (fk_cols fk) r) = false ->
  (forall pt pr, get_table d (fk_parent fk) = Some pt -> In pr (t_rows pt) -> proj (fk_pcols fk) pr <> proj (fk_cols fk) r) ->
  exists e, exec_insert d t rs0 = ((d, []), RErr e).
Proof. exact insert_orphan_rejected. Qed.
Print Assumptions C12_insert_orphan_rejected.

Theorem C12_update_accepts_only_parented : forall ord d t tb asg wh d' ev n,
  inv d -> get_table d t = Some tb -> exec_update ord d t asg wh = ((d', ev), ROk n) ->
  forall i r nr fk, In (i, r) (select_from 0 wh (t_rows tb)) -> apply_asg tb asg r r = Some nr ->
    In fk (t_fks tb) -> has_null (proj (fk_cols fk) nr) = false ->
    exists pt pr, get_table d (fk_parent fk) = Some pt /\ In pr (t_rows pt) /\ proj (fk_pcols fk) pr = proj (fk_cols fk) nr.
Proof. exact update_accepts_only_parented. Qed.
Print Assumptions C12_update_accepts_only_parented.

(** DROP TABLE of a table that another table's FOREIGN KEY references is refused and changes
    nothing (repaired class drop-referenced-table; [C12_ri_step] now covers every DROP TABLE) *)
Theorem C12_drop_referenced_rejected : forall d t tb,
  get_table d t = Some tb -> referenced_by_other d t = true -> exec_drop d t = ((d, []), RErr EConstraint).
Proof. exact drop_referenced_rejected. Qed.
Print Assumptions C12_drop_referenced_rejected.

Theorem C12_drop_keeps_ri : forall d t d' ev r,
  inv d -> RI d -> exec_drop d t = ((d', ev), r) -> ev = [] /\ inv d' /\ RI d'.
Proof. exact exec_drop_ok. Qed.
Print Assumptions C12_drop_keeps_ri.

(** a key declared out of column order, FOREIGN KEY (c2, c1) REFERENCES t0(c0, c1), is a standard key
    now (repaired class fk-columns-out-of-order): the former witness satisfies the hypotheses of
    [C12_ri_step], the valid row is accepted, the dangling one refused *)
Theorem C12_fk_out_of_order_standard :
  inv w10_db /\ RI w10_db
  /\ known_class [0; 1] (SInsert 1 [[v 1; v 2; v 1]]) w10_db = false
  /\ step_res [0; 1] w10_db (SInsert 1 [[v 1; v 2; v 1]]) = ROk 1
  /\ step_res [0; 1] w10_db (SInsert 1 [[v 2; v 1; v 2]]) = RErr EConstraint.
Proof. exact out_of_order_example. Qed.
Print Assumptions C12_fk_out_of_order_standard.

(** INSERT .. SELECT (bulk transfer or not) keeps RI: the rows are validated against the table as it
    was before the statement and only then inserted *)
Theorem C12_insert_select_keeps_ri : forall d dst src simple sel d' ev r,
  inv d -> RI d -> exec_insert_select d dst src simple sel = ((d', ev), r) -> ev = [] -> inv d' /\ RI d'.
Proof. exact exec_insert_select_ok. Qed.
Print Assumptions C12_insert_select_keeps_ri.

(* ---------------------------------------------------------------------------------------- *)
(** ** Termination of the cascade recursion *)

(** measure: the rank of the table along ON DELETE CASCADE edges of the schema *)
Theorem C12_check_terminates_by_rank : forall (rk : nat -> nat) ord fuel p r w,
  rank_ok rk (fst w) -> rk p < fuel -> never_crashes (check fuel ord p r w).
Proof. exact check_terminates_by_rank. Qed.
Print Assumptions C12_check_terminates_by_rank.

Theorem C12_delete_terminates_by_rank : forall rk fuel ord d t wh,
  rank_ok rk d -> rk t < fuel -> snd (exec_delete fuel ord d t wh) <> RCrash.
Proof. exact delete_terminates_by_rank. Qed.
Print Assumptions C12_delete_terminates_by_rank.

(** measure from the ROWS: the chains of ON DELETE CASCADE references below the deleted row.  A chain
    without repetition visits every (table, key) at most once, so the default fuel (rows + 2) is
    never exhausted unless a cycle of CASCADE references between rows is reachable from a selected
    row (nsd: no ON DELETE SET DEFAULT with a non-NULL default, which could create references) *)
Theorem C12_check_terminates_by_depth : forall ord fuel p prow w,
  inv (fst w) -> nsd (fst w) -> levelok fuel (fst w) p prow -> never_crashes (check fuel ord p prow w).
Proof. exact check_terminates_by_depth. Qed.
Print Assumptions C12_check_terminates_by_depth.

Theorem C12_delete_terminates_without_cycle : forall ord d t wh,
  inv d -> nsd d ->
  (forall tb pk r, get_table d t = Some tb -> t_pk tb = Some pk -> In r (t_rows tb) -> selects wh r = true ->
     no_cascade_cycle_from d (t, proj pk r)) ->
  step_res ord d (SDelete t wh) <> RCrash.
Proof. exact delete_terminates_without_cycle. Qed.
Print Assumptions C12_delete_terminates_without_cycle.

(** without a rank (self-referencing table) termination depends on the rows: on a row that
    references itself through ON DELETE CASCADE the recursion never ends, with any fuel
    (the engine overflows its stack; confirmed in a child process on every run) *)
Theorem C12_cascade_terminates_refuted :
  (RI cyc_db /\ inv cyc_db) /\
  forall fuel, snd (step_fuel fuel [0] cyc_db (SDelete 0 (Some (PCmp 0 OEq 1%Z)))) = RCrash.
Proof. exact (conj cascade_cycle_state_ok cascade_cycle_diverges). Qed.
Print Assumptions C12_cascade_terminates_refuted.

(* ---------------------------------------------------------------------------------------- *)
(** ** The unconditional statements are false of the faithful model: one witness per class *)

(** breaks_ri e ord d s := inv d /\ ord_ok ord d /\ RI d /\ In e (step_events ord d s) /\ ~ RI (step_db ord d s) *)
Theorem C12_ri_step_refuted_index_shift : breaks_ri EvIndexShift [0] w1_db w1_stmt.
Proof. exact index_shift_witness. Qed.
Print Assumptions C12_ri_step_refuted_index_shift.

Theorem C12_ri_step_refuted_stale_row : breaks_ri EvStaleCascadeRow [0; 1] w2_db w2_stmt.
Proof. exact stale_row_witness. Qed.
Print Assumptions C12_ri_step_refuted_stale_row.

Theorem C12_ri_step_refuted_set_default : breaks_ri EvSetDefault [0; 1] w3_db w3_stmt.
Proof. exact set_default_witness. Qed.
Print Assumptions C12_ri_step_refuted_set_default.

Theorem C12_ri_step_refuted_partial_update :
  breaks_ri EvPartial [0; 1; 2] w4_db w4_stmt /\ step_res [0; 1; 2] w4_db w4_stmt = RErr EConstraint.
Proof. exact partial_update_witness. Qed.
Print Assumptions C12_ri_step_refuted_partial_update.

Theorem C12_ri_step_refuted_overwrite : breaks_ri EvOverwrite [0; 1] w5_db w5_stmt.
Proof. exact overwrite_witness. Qed.
Print Assumptions C12_ri_step_refuted_overwrite.

Theorem C12_ri_step_refuted_side_effect : breaks_ri EvSideEffect [0; 1; 2] w6_db w6_stmt.
Proof. exact side_effect_witness. Qed.
Print Assumptions C12_ri_step_refuted_side_effect.

Theorem C12_ri_step_refuted_self_ref_update : breaks_ri EvSelfRefPkUpdate [0] w7_db w7_stmt.
Proof. exact self_ref_update_witness. Qed.
Print Assumptions C12_ri_step_refuted_self_ref_update.

Theorem C12_ri_step_refuted_add_fk :
  breaks_ri EvAddFkUnchecked [0; 1] w9_db (SAddFk 1 (mkFk [1] 0 [0] ANoAction ANoAction)).
Proof. exact add_fk_witness. Qed.
Print Assumptions C12_ri_step_refuted_add_fk.

Theorem C12_ri_step_refuted_non_pk_reference :
  ri_b w11_db = true /\ schema_standard w11_db = false /\
  step_res [0; 1] w11_db (SDelete 0 (Some (PCmp 0 OEq 1))) = ROk 1
  /\ ri_b (step_db [0; 1] w11_db (SDelete 0 (Some (PCmp 0 OEq 1)))) = false.
Proof. exact non_pk_witness. Qed.
Print Assumptions C12_ri_step_refuted_non_pk_reference.

(** "a rejected statement changes nothing" is false as well (RI itself survives here) *)
Theorem C12_reject_unchanged_refuted :
  exists ord d s, inv d /\ ord_ok ord d /\ RI d /\ step_res ord d s = RErr EConstraint /\ step_db ord d s <> d.
Proof. exact reject_unchanged_refuted. Qed.
Print Assumptions C12_reject_unchanged_refuted.

(** "an UPDATE that leaves every key as it is does not touch the children" is false: the ON UPDATE
    actions fire whenever a primary-key column is assigned (RI itself survives) *)
Theorem C12_unchanged_key_update_refuted :
  inv w13_db /\ RI w13_db /\ step_events [0; 1] w13_db w13_stmt = []
  /\ get_table (step_db [0; 1] w13_db w13_stmt) 0 = get_table w13_db 0
  /\ get_table (step_db [0; 1] w13_db w13_stmt) 1 <> get_table w13_db 1.
Proof. exact unchanged_key_update_witness. Qed.
Print Assumptions C12_unchanged_key_update_refuted.

(** the invariant part "primary keys stay unique" fails on C10's class multirow-update-same-new-key *)
Theorem C12_keys_unique_refuted :
  exists ord d s, inv d /\ In EvPkCollision (step_events ord d s) /\ ~ keys_unique (step_db ord d s).
Proof. exact pk_collision_witness. Qed.
Print Assumptions C12_keys_unique_refuted.
