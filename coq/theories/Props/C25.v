(** C25 — The query result cache never serves a stale or foreign result.
    Only pinned statements, each closed by [exact] of a lemma proved elsewhere
    (Store/CacheLaws.v, Store/CacheTablesLaws.v, Store/CacheConcrete.v, Lex/NormalizeLaws.v). *)
From Coq Require Import List ZArith Bool.
From VibeSQL Require Import Lex.Normalize Lex.SipHash Lex.NormalizeLaws Lex.NormalizeEdits
     Store.Cache Store.CacheLaws Store.CacheTables Store.CacheTablesLaws Store.CacheConcrete.
Import ListNotations.
Open Scope Z_scope.

(** ** 1. The protocol is transparent (every history, every capacity, every choice of eviction victims)
    under H1 (equal signatures imply equal results on every database) and H2 (a statement leaves the
    successful result of a query unchanged unless the protocol invalidates the query's entry for it) *)
Theorem C25_cache_transparent :
  forall (K : Type) (keqb : K -> K -> bool), (forall a b : K, keqb a b = true <-> a = b) ->
  forall (R db query stmt : Type) (exec : db -> query -> option R) (apply : db -> stmt -> db)
         (sig : query -> K) (extract : query -> list tname) (inval : stmt -> option tname)
         (cap : Z) (dom : query -> Prop),
  (forall q1 q2, dom q1 -> dom q2 -> sig q1 = sig q2 -> forall d, exec d q1 = exec d q2) ->
  (forall d s q r, dom q -> exec d q = Some r -> untouched query stmt extract inval s q = true ->
                   exec (apply d s) q = Some r) ->
  forall (ops : list (op query stmt * option K)) (d d' : db) (c' : cache K R) (obs0 : list (obs R)),
  Forall (op_dom query stmt dom) (map fst ops) ->
  run K keqb R db query stmt exec apply sig extract inval cap (d, []) ops = Some (d', c', obs0) ->
  run_plain R db query stmt exec apply d (map fst ops) = (d', map (returned R) obs0).
Proof. exact run_transparent. Qed.
Print Assumptions C25_cache_transparent.

(** in the words of the property: in every reachable state a hit returns [exec current_db q] *)
Theorem C25_hit_returns_current :
  forall (K : Type) (keqb : K -> K -> bool), (forall a b : K, keqb a b = true <-> a = b) ->
  forall (R db query stmt : Type) (exec : db -> query -> option R) (apply : db -> stmt -> db)
         (sig : query -> K) (extract : query -> list tname) (inval : stmt -> option tname)
         (cap : Z) (dom : query -> Prop),
  (forall q1 q2, dom q1 -> dom q2 -> sig q1 = sig q2 -> forall d, exec d q1 = exec d q2) ->
  (forall d s q r, dom q -> exec d q = Some r -> untouched query stmt extract inval s q = true ->
                   exec (apply d s) q = Some r) ->
  forall (ops : list (op query stmt * option K)) (d d' : db) (c' : cache K R) (obs0 : list (obs R))
         (q : query) (v : option K) (st'' : state K R db) (r : R),
  Forall (op_dom query stmt dom) (map fst ops) ->
  run K keqb R db query stmt exec apply sig extract inval cap (d, []) ops = Some (d', c', obs0) ->
  dom q ->
  step K keqb R db query stmt exec apply sig extract inval cap (d', c') (Read q) v = Some (st'', Hit r) ->
  exec d' q = Some r.
Proof. exact reachable_hit_current. Qed.
Print Assumptions C25_hit_returns_current.

(** a successful miss is followed by a hit for every query with the same signature (capacity other
    than 0: a cache of capacity 0 stores nothing) *)
Theorem C25_hit_after_miss :
  forall (K : Type) (keqb : K -> K -> bool), (forall a b : K, keqb a b = true <-> a = b) ->
  forall (R db query stmt : Type) (exec : db -> query -> option R) (apply : db -> stmt -> db)
         (sig : query -> K) (extract : query -> list tname) (inval : stmt -> option tname) (cap : Z)
         (d : db) (c : cache K R) (q : query) (v : option K) (st' : state K R db) (r : R) (q' : query),
  cap <> 0 ->
  step K keqb R db query stmt exec apply sig extract inval cap (d, c) (Read q) v = Some (st', Miss (Some r)) ->
  sig q' = sig q ->
  forall v', step K keqb R db query stmt exec apply sig extract inval cap st' (Read q') v' = Some (st', Hit r).
Proof. exact hit_after_miss. Qed.
Print Assumptions C25_hit_after_miss.

(** ** 2. Capacity and eviction: the size never exceeds the capacity, for every capacity a usize can hold
    (since the repair fix: capacity-zero-holds-one-entry; before it the bound was [max cap 1]) *)
Theorem C25_size_bound :
  forall (K : Type) (keqb : K -> K -> bool) (R db query stmt : Type) (exec : db -> query -> option R)
         (apply : db -> stmt -> db) (sig : query -> K) (extract : query -> list tname)
         (inval : stmt -> option tname) (cap : Z) (ops : list (op query stmt * option K))
         (d : db) (c : cache K R) (d' : db) (c' : cache K R) (obs0 : list (obs R)),
  0 <= cap -> size K R c <= cap ->
  run K keqb R db query stmt exec apply sig extract inval cap (d, c) ops = Some (d', c', obs0) ->
  size K R c' <= cap.
Proof. exact run_size_bound. Qed.
Print Assumptions C25_size_bound.

Theorem C25_insert_size_le_cap :
  forall (K : Type) (keqb : K -> K -> bool) (R : Type) (cap : Z) (c : cache K R) (k : K) (e : entry R)
         (v : option K) (c' : cache K R),
  0 <= cap -> insert K keqb R cap c k e v = Some c' -> size K R c <= cap -> size K R c' <= cap.
Proof. exact insert_size_le_cap. Qed.
Print Assumptions C25_insert_size_le_cap.

(** the former refutation at capacity 0, now positive: such a cache stores nothing and evicts nothing *)
Theorem C25_capacity_zero_holds_nothing :
  forall (K : Type) (keqb : K -> K -> bool) (R : Type) (c : cache K R) (k : K) (e : entry R)
         (v : option K) (c' : cache K R),
  insert K keqb R 0 c k e v = Some c' -> c' = c /\ v = None.
Proof. exact capacity_zero_holds_nothing. Qed.
Print Assumptions C25_capacity_zero_holds_nothing.

Theorem C25_insert_evicts_iff :
  forall (K : Type) (keqb : K -> K -> bool) (R : Type) (cap : Z) (c : cache K R) (k : K) (e : entry R)
         (v : option K) (c' : cache K R),
  insert K keqb R cap c k e v = Some c' -> (v <> None <-> (cap <> 0 /\ cap <= size K R c /\ c <> [])).
Proof. exact insert_evicts_iff. Qed.
Print Assumptions C25_insert_evicts_iff.

(** ** 3. No foreign result at the level of the map: an entry is only ever returned for the signature it
    was inserted under *)
Theorem C25_no_foreign_result :
  forall (K : Type) (keqb : K -> K -> bool), (forall a b : K, keqb a b = true <-> a = b) ->
  forall (R : Type) (cap : Z) (c : cache K R) (k : K) (e : entry R) (v : option K) (c' : cache K R)
         (k' : K) (r : R),
  insert K keqb R cap c k e v = Some c' -> get K keqb R c' k' = Some r ->
  (cap <> 0 /\ k' = k /\ r = e_rows e) \/ ((k' <> k \/ cap = 0) /\ get K keqb R c k' = Some r).
Proof. exact get_insert_inv. Qed.
Print Assumptions C25_no_foreign_result.

Theorem C25_invalidate_inv :
  forall (K : Type) (keqb : K -> K -> bool), (forall a b : K, keqb a b = true <-> a = b) ->
  forall (R : Type) (c : cache K R) (t : tname) (k : K) (e : entry R),
  NoDup (keys K R c) -> lookup K keqb R (invalidate_table K R c t) k = Some e ->
  lookup K keqb R c k = Some e /\ mentions R e t = false.
Proof. exact lookup_invalidate_inv. Qed.
Print Assumptions C25_invalidate_inv.

Theorem C25_invalidate_keeps_unrelated :
  forall (K : Type) (keqb : K -> K -> bool), (forall a b : K, keqb a b = true <-> a = b) ->
  forall (R : Type) (c : cache K R) (t : tname) (k : K) (e : entry R),
  NoDup (keys K R c) -> lookup K keqb R c k = Some e -> mentions R e t = false ->
  lookup K keqb R (invalidate_table K R c t) k = Some e.
Proof. exact lookup_invalidate_keep. Qed.
Print Assumptions C25_invalidate_keeps_unrelated.

Theorem C25_invalidate_complete :
  forall (K R : Type) (c : cache K R) (t : tname) (k : K) (e : entry R),
  In (k, e) (invalidate_table K R c t) -> forall t', In t' (e_tables e) -> ci_eqb t' t = false.
Proof. exact invalidate_complete. Qed.
Print Assumptions C25_invalidate_complete.

(** ** 4. Obligation H1 on the concrete signature: [normalize] *)
(** what the coded normaliser identifies: the same words (split at ANY white space) up to case folding
    of EVERY code point *)
Theorem C25_normalize_char : forall s1 s2,
  normalize s1 = normalize s2 <-> map to_lower (split_ws s1) = map to_lower (split_ws s2).
Proof. exact normalize_char. Qed.
Print Assumptions C25_normalize_char.

(** normalize_sound is FALSE in general (string literals, delimited identifiers, the newline ending a
    line comment): known findings signature-normalises-string-literals,
    signature-normalises-quoted-identifiers, signature-collapses-comment-newline *)
Theorem C25_normalize_sound_refuted :
  refuting_pair t_sel_A t_sel_a /\ refuting_pair t_sel_a2b t_sel_a1b /\
  refuting_pair t_sel_qx t_sel_qX /\ refuting_pair t_cmt_nl t_cmt_sp.
Proof. exact normalize_sound_refuted. Qed.
Print Assumptions C25_normalize_sound_refuted.

(** ... and true (even an equivalence) for texts without protected regions *)
Theorem C25_normalize_sound_plain : forall s1 s2,
  has_protected s1 = false -> has_protected s2 = false ->
  (normalize s1 = normalize s2 <-> same_query s1 s2).
Proof. exact normalize_sound_plain. Qed.
Print Assumptions C25_normalize_sound_plain.

(** the repair specification (a normaliser that leaves protected regions alone) is sound and complete
    for every pair of texts *)
Theorem C25_normalize_q_sound : forall s1 s2, normalize_qm s1 = normalize_qm s2 <-> same_query s1 s2.
Proof. exact normalize_qm_char. Qed.
Print Assumptions C25_normalize_q_sound.

(** the coded normaliser never separates what is the same query (hit rate, not safety) *)
Theorem C25_same_query_share_entry : forall s1 s2, same_query s1 s2 -> normalize s1 = normalize s2.
Proof. exact same_query_share_entry. Qed.
Print Assumptions C25_same_query_share_entry.

(** adequacy of the two notions, in elementary terms: [normalize] identifies exactly the texts connected by
    white-space and case edits applied ANYWHERE in the text ... *)
Theorem C25_normalize_iff_edits : forall s1 s2, text_eqv s1 s2 <-> normalize s1 = normalize s2.
Proof. exact normalize_iff_edits. Qed.
Print Assumptions C25_normalize_iff_edits.

(** ... while [same_query] (the property's notion) is connectedness by the same edits applied OUTSIDE
    protected regions only *)
Theorem C25_same_query_iff_edits :
  forall s1 s2, same_query s1 s2 <-> marked_eqv (classify s1) (classify s2).
Proof. exact same_query_iff_edits. Qed.
Print Assumptions C25_same_query_iff_edits.

(** ** 5. Obligation H2 on the concrete extractors *)
(** the executor crate's extractor returns exactly the mentioned names minus those below the three
    leaf-treated variants (Interval, WindowFunction, MatchAgainst) *)
Theorem C25_extract_exact :
  forall q x, In x (all_select q) <-> In x (xt_select q) \/ In x (hid_select q).
Proof. exact xt_exact. Qed.
Print Assumptions C25_extract_exact.

Theorem C25_extract_complete :
  forall (views : tname -> option select) (fuel : nat) (q : select),
  hid_select q = [] -> view_free views q -> incl (reads views fuel q) (xt_select q).
Proof. exact xt_complete. Qed.
Print Assumptions C25_extract_complete.

(** extract_complete is FALSE through views (known finding view-not-expanded-for-invalidation) *)
Theorem C25_extract_complete_view_refuted :
  exists views fuel q t, hid_select q = [] /\ In t (reads views fuel q) /\ ~ In t (xt_select q).
Proof. exact xt_complete_view_refuted. Qed.
Print Assumptions C25_extract_complete_view_refuted.

(** ... and below a window function (known finding window-function-subquery-not-extracted) *)
Theorem C25_extract_complete_window_refuted :
  exists q t, (forall n, In n (all_select q) -> (fun _ : tname => @None select) n = None) /\
              In t (reads (fun _ => None) 0 q) /\ ~ In t (xt_select q).
Proof. exact xt_complete_window_refuted. Qed.
Print Assumptions C25_extract_complete_window_refuted.

(** the extractor the adapter actually calls sees the FROM spine only
    (known finding adapter-extractor-from-clause-only) *)
Theorem C25_adapter_extract_exact :
  forall q x, In x (all_select q) <-> In x (ax_select q) \/ In x (ahid_select q).
Proof. exact ax_exact. Qed.
Print Assumptions C25_adapter_extract_exact.

Theorem C25_adapter_extract_complete :
  forall (views : tname -> option select) (fuel : nat) (q : select),
  ahid_select q = [] -> view_free views q -> incl (reads views fuel q) (ax_select q).
Proof. exact ax_complete. Qed.
Print Assumptions C25_adapter_extract_complete.

Theorem C25_adapter_extract_complete_refuted :
  exists q t, hid_select q = [] /\ (forall n, In n (all_select q) -> (fun _ : tname => @None select) n = None) /\
              In t (reads (fun _ => None) 0 q) /\ In t (xt_select q) /\ ~ In t (ax_select q).
Proof. exact ax_complete_refuted. Qed.
Print Assumptions C25_adapter_extract_complete_refuted.

Theorem C25_adapter_extract_incl_crate : forall q x, In x (ax_select q) -> In x (xt_select q).
Proof. exact ax_incl_xt. Qed.
Print Assumptions C25_adapter_extract_incl_crate.

(** ** 6. The pieces put together: transparency of the protocol with the concrete signature
    (SipHash-1-3 of the normalised text) and each concrete extractor, from the obligations above and
    the stated assumptions about unmodelled code (hash collisions, lexer/executor, statement effects) *)
Theorem C25_concrete_transparent_crate :
  forall (R db stmt : Type) (exec : db -> cquery -> option R) (apply : db -> stmt -> db)
         (inval : stmt -> option tname) (cap : Z) (dom : cquery -> Prop),
  (forall q1 q2, dom q1 -> dom q2 -> signature (q_text q1) = signature (q_text q2) ->
                 normalize (q_text q1) = normalize (q_text q2)) ->
  (forall q1 q2, dom q1 -> dom q2 -> same_query (q_text q1) (q_text q2) -> forall d, exec d q1 = exec d q2) ->
  (forall d s q r, dom q -> exec d q = Some r ->
     match inval s with
     | Some t => forall t', In t' (all_select (q_ast q)) -> ci_eqb t' t = false
     | None => True
     end -> inval s <> None -> exec (apply d s) q = Some r) ->
  (forall d s q r, dom q -> exec d q = Some r -> inval s = None -> exec (apply d s) q = Some r) ->
  (forall q, dom q -> has_protected (q_text q) = false) ->
  (forall q, dom q -> hid_select (q_ast q) = []) ->
  forall (ops : list (op cquery stmt * option Z)) (d d' : db) (c' : cache Z R) (obs0 : list (obs R)),
  Forall (op_dom cquery stmt dom) (map fst ops) ->
  run Z Z.eqb R db cquery stmt exec apply sig_of (fun q => xt_select (q_ast q)) inval cap (d, []) ops
    = Some (d', c', obs0) ->
  run_plain R db cquery stmt exec apply d (map fst ops) = (d', map (returned R) obs0).
Proof. exact concrete_transparent_crate. Qed.
Print Assumptions C25_concrete_transparent_crate.

Theorem C25_concrete_transparent_adapter :
  forall (R db stmt : Type) (exec : db -> cquery -> option R) (apply : db -> stmt -> db)
         (inval : stmt -> option tname) (cap : Z) (dom : cquery -> Prop),
  (forall q1 q2, dom q1 -> dom q2 -> signature (q_text q1) = signature (q_text q2) ->
                 normalize (q_text q1) = normalize (q_text q2)) ->
  (forall q1 q2, dom q1 -> dom q2 -> same_query (q_text q1) (q_text q2) -> forall d, exec d q1 = exec d q2) ->
  (forall d s q r, dom q -> exec d q = Some r ->
     match inval s with
     | Some t => forall t', In t' (all_select (q_ast q)) -> ci_eqb t' t = false
     | None => True
     end -> inval s <> None -> exec (apply d s) q = Some r) ->
  (forall d s q r, dom q -> exec d q = Some r -> inval s = None -> exec (apply d s) q = Some r) ->
  (forall q, dom q -> has_protected (q_text q) = false) ->
  (forall q, dom q -> ahid_select (q_ast q) = []) ->
  forall (ops : list (op cquery stmt * option Z)) (d d' : db) (c' : cache Z R) (obs0 : list (obs R)),
  Forall (op_dom cquery stmt dom) (map fst ops) ->
  run Z Z.eqb R db cquery stmt exec apply sig_of (fun q => ax_select (q_ast q)) inval cap (d, []) ops
    = Some (d', c', obs0) ->
  run_plain R db cquery stmt exec apply d (map fst ops) = (d', map (returned R) obs0).
Proof. exact concrete_transparent_adapter. Qed.
Print Assumptions C25_concrete_transparent_adapter.
