(** C15 — Index structures always mirror table contents.
    Only pinned statements, each closed by [exact] of a lemma proved elsewhere.

    [hash_mirror t]: the PRIMARY KEY map and every UNIQUE map of the table IS, as a finite map,
    the map [IndexManager::rebuild] produces from the current rows; [user_mirror t]: the data
    of every CREATE INDEX index IS the map a from-scratch build produces (row ids under one key
    up to order).  Proved together with C10's [constraints_hold]: with duplicate keys an
    overwrite-on-insert map is NOT the rebuild, so the mirror needs the constraints, and the
    constraint checks read the maps, so the constraints need the mirror. *)
From Coq Require Import List ZArith Bool.
From VibeSQL Require Import Store.Table Store.UserIndex Store.Constraints Store.Dml
     Store.TableLaws Store.UserIndexLaws Store.Invariant Store.DmlLaws Store.InsertLaws
     Store.UpdateLaws Store.StepLaws Store.WitnessLaws Store.HashLaws.
Import ListNotations.

Theorem C15_inv_step : forall d s, Inv d -> known_class s d = false -> Inv (fst (step d s)).
Proof. exact inv_step_thm. Qed.
Print Assumptions C15_inv_step.

Theorem C15_mirror_step :
  forall d s, Inv d -> known_class s d = false ->
  db_hash_mirror (fst (step d s)) /\ db_user_mirror (fst (step d s)).
Proof. exact mirror_step_thm. Qed.
Print Assumptions C15_mirror_step.

(** every history of DML, DDL and transaction statements outside the known classes *)
Theorem C15_mirror_reachable :
  forall schemas ss, Forall created schemas -> clean (db_init schemas) ss = true ->
  db_hash_mirror (run (db_init schemas) ss) /\ db_user_mirror (run (db_init schemas) ss).
Proof. exact mirror_reachable_thm. Qed.
Print Assumptions C15_mirror_reachable.

(** what the mirror says, key by key: the maps contain exactly the keys of the current rows,
    mapped to their current positions *)
Theorem C15_pk_index_exact :
  forall t cols m, TInv t -> s_pk (t_sch t) = Some cols -> t_pkidx t = Some m ->
  forall k i, am_find k m = Some i <-> keyed_at (pk_kf cols) (t_rows t) i k.
Proof. exact TInv_pk_spec. Qed.
Print Assumptions C15_pk_index_exact.

Theorem C15_unique_index_exact :
  forall t j cols m, TInv t -> nth_error (s_uniqs (t_sch t)) j = Some cols -> nth_error (t_uqidx t) j = Some m ->
  forall k i, am_find k m = Some i <-> keyed_at (uq_kf cols) (t_rows t) i k.
Proof. exact TInv_uq_spec. Qed.
Print Assumptions C15_unique_index_exact.

Theorem C15_user_index_exact :
  forall t u, TInv t -> In u (t_uidx t) ->
  forall k, (forall j, In j (ui_get k (ui_data u)) <-> keyed_at (ui_kf (ui_cols u)) (t_rows t) j k)
            /\ NoDup (ui_get k (ui_data u)) /\ am_find k (ui_data u) <> Some [].
Proof. exact TInv_uidx_spec. Qed.
Print Assumptions C15_user_index_exact.

(** index-based uniqueness checks see exactly those keys *)
Theorem C15_unique_check_exact :
  forall t r, TInv t ->
  (uidx_unique_violation (t_uidx t) r = true <->
   exists u k, In u (t_uidx t) /\ ui_unique u = true /\ uq_kf (ui_cols u) r = Some k
               /\ In k (somes (uq_kf (ui_cols u)) (t_rows t))).
Proof. exact TInv_unique_check. Qed.
Print Assumptions C15_unique_check_exact.

(** the spec formulation and the "= rebuild" formulation are the same thing *)
Theorem C15_user_mirror_iff_exact :
  forall cols rows m, ui_mirror cols rows m <-> ui_spec cols rows m.
Proof. exact ui_mirror_spec. Qed.
Print Assumptions C15_user_mirror_iff_exact.

Theorem C15_hash_mirror_iff_exact :
  forall kf rows m, uniq_on kf rows -> (am_equiv m (h_rebuild kf rows) <-> h_spec kf rows m).
Proof. exact h_mirror_spec. Qed.
Print Assumptions C15_hash_mirror_iff_exact.

(** user-index maintenance itself is unconditional: INSERT and UPDATE keep every user index
    exact whatever the rows are *)
Theorem C15_user_index_insert :
  forall cols rows r m, ui_spec cols rows m -> ui_spec cols (rows ++ [r]) (ui_add (ui_key cols r) (length rows) m).
Proof. exact ui_spec_add. Qed.
Print Assumptions C15_user_index_insert.

Theorem C15_user_index_update :
  forall cols rows i old new m, ui_spec cols rows m -> nth_error rows i = Some old ->
  ui_spec cols (set_nth i new rows) (ui_upd cols old new i m).
Proof. exact ui_spec_upd. Qed.
Print Assumptions C15_user_index_update.

(** How far the side condition can be dropped.  From a state satisfying the invariant, EVERY
    statement -- those of the known classes included -- leaves every constraint hash map exact
    (the proof for UPDATE characterises the rebuild as "last position carrying the key" and uses
    that the row loop visits the selected positions in ascending order) ... *)
Theorem C15_hash_mirror_step_always : forall d s, Inv d -> db_hash_mirror (fst (step d s)).
Proof. exact hash_mirror_step_always. Qed.
Print Assumptions C15_hash_mirror_step_always.

Theorem C15_hash_mirror_iff_last :
  forall kf rows m, am_equiv m (h_rebuild kf rows) <-> h_last kf rows m.
Proof. exact h_mirror_last. Qed.
Print Assumptions C15_hash_mirror_iff_last.

(** ... and every statement other than ROLLBACK TO SAVEPOINT leaves every user index exact: it is
    the only statement that can break C15 in one step *)
Theorem C15_user_mirror_step_always :
  forall d s, Inv d -> not_rollback s = true -> db_user_mirror (fst (step d s)).
Proof. exact user_mirror_step_always. Qed.
Print Assumptions C15_user_mirror_step_always.

(** The statement without the side condition is false of the faithful model: witnesses. *)
Theorem C15_inv_step_refuted :
  forall schemas ss s, c15_witness schemas ss s ->
  exists d, Inv d /\ known_class s d = true /\ ~ db_user_mirror (fst (step d s)).
Proof. exact c15_witness_refutes. Qed.
Print Assumptions C15_inv_step_refuted.

Local Open Scope Z_scope.

(** repaired (was rollback-leaves-user-index-stale): the former witness history, ROLLBACK included,
    is outside every known class, both mirrors hold after it, and the index holds exactly key 10 *)
Theorem C15_repaired_rollback :
  c15_repaired [t_pk0] [SCreateIndex 1 0 false [1%nat]; SInsert 0 [i3 1 10 0]; SBegin; SInsert 0 [i3 2 20 0]; SRollback]
  /\ map (fun t => map ui_data (t_uidx t))
         (d_tabs (run (db_init [t_pk0]) [SCreateIndex 1 0 false [1%nat]; SInsert 0 [i3 1 10 0]; SBegin;
                                         SInsert 0 [i3 2 20 0]; SRollback]))
     = [[[([Some 10], [0%nat])]]].
Proof. exact rep_rollback. Qed.
Print Assumptions C15_repaired_rollback.

Theorem C15_repaired_history_mirrors :
  forall schemas ss, c15_repaired schemas ss ->
  db_hash_mirror (run (db_init schemas) ss) /\ db_user_mirror (run (db_init schemas) ss).
Proof. exact c15_repaired_holds. Qed.
Print Assumptions C15_repaired_history_mirrors.

Theorem C15_refuted_savepoint_undo_stale :
  c15_witness [t_pk0] [SCreateIndex 1 0 false [1%nat]; SBegin; SInsert 0 [i3 1 10 0]; SSavepoint 1;
                       SInsert 0 [i3 2 20 0]]
              (SRollbackTo 1).
Proof. exact wit_savepoint_undo_stale. Qed.
Print Assumptions C15_refuted_savepoint_undo_stale.
