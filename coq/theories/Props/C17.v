(** C17 -- the disk-backed B+ tree behaves as an ordered multimap.
    Only pinned statements, each closed by [exact] of a lemma proved in Store/BTree{Laws,Delete,Seq,Bulk,Check}.v.
    Model: Store/BTree.v ([d] = degree, [ksz] = serialised key size, [guard] = whether the
    single-child rebalance guard of fixes/C17-rebalance-single-child.patch is present).
    [WF m t]: uniform depth = height, strictly sorted leaves with non-empty row-id lists, strictly
    increasing separators that bound their subtrees, and every internal node has at least m keys. *)
From Coq Require Import List ZArith Sorted.
From VibeSQL Require Import Store.BTree Store.BTreeLemmas Store.BTreeLaws Store.BTreeDelete
  Store.BTreeCheck Store.BTreeSeq Store.BTreeBulk Store.BTreePatched.
Import ListNotations.

(** ** queries *)
Theorem C17_lookup_spec : forall (m : nat) (t : tree) (k : key),
  WF m t -> lookup t k = Ok (mm_lookup (abs (root t)) k).
Proof. exact lookup_spec. Qed.
Print Assumptions C17_lookup_spec.

Theorem C17_multi_lookup_spec : forall (m : nat) (t : tree) (ks : list key),
  WF m t -> multi_lookup t ks = Ok (flat_map (mm_lookup (abs (root t))) ks).
Proof. exact multi_lookup_spec. Qed.
Print Assumptions C17_multi_lookup_spec.

(** _partial: the model's range scan walks the leaves of the tree in order from the start leaf; the
    [next_leaf] page chain the code really follows is not part of the functional model (checked at run
    time: chain = leaves in order on every page dump, and every scan answer is compared). *)
Theorem C17_range_scan_spec_partial : forall (m : nat) (t : tree) (s e : option key) (is ie : bool),
  WF m t -> range_scan t s e is ie = Ok (mm_range (abs (root t)) s e is ie).
Proof. exact range_scan_spec. Qed.
Print Assumptions C17_range_scan_spec_partial.

(** _partial companion: what the model scans is exactly the in-order contents *)
Theorem C17_leaf_chain_partial : forall t : node, concat (leaves t) = abs t.
Proof. exact concat_leaves. Qed.
Print Assumptions C17_leaf_chain_partial.

(** ** insert (splits, split propagation, new root); the only failure of a well-formed tree is a page
    overflow -- never a panic, never a wrong-page error *)
Theorem C17_insert_refines : forall (d : nat) (ksz : key -> Z), 4 <= d ->
  forall (m : nat) (t : tree) (k : key) (r : rowid), m <= 1 -> WF m t ->
  match insert d ksz t k r with
  | Ok t' => WF m t' /\ abs (root t') = mm_insert (abs (root t)) k r
  | Err e => e = PageOverflow
  end.
Proof. exact insert_refines. Qed.
Print Assumptions C17_insert_refines.

(** the unconditional statement ("insert always succeeds") is false: row-id lists are stored inline *)
Theorem C17_insert_total_refuted :
  exists (t : tree) (k : key) (r : rowid), WFb 1 t = true /\ insert 5 c17_ksz t k r = Err PageOverflow.
Proof. exact page_overflow_refuted. Qed.
Print Assumptions C17_insert_total_refuted.

(** ** delete / delete_specific with borrow, merge, propagation and root collapse *)
Theorem C17_delete_refines : forall (d : nat) (ksz : key -> Z) (guard : bool), 4 <= d ->
  forall (t : tree) (k : key), WF 1 t ->
  match delete d ksz guard t k with
  | Ok (t', b) => WF 1 t' /\ abs (root t') = mm_delete (abs (root t)) k /\ b = mm_mem (abs (root t)) k
  | Err e => e = PageOverflow
  end.
Proof. exact delete_refines_wf1. Qed.
Print Assumptions C17_delete_refines.

Theorem C17_delete_specific_refines : forall (d : nat) (ksz : key -> Z) (guard : bool), 4 <= d ->
  forall (t : tree) (k : key) (r : rowid), WF 1 t ->
  match delete_specific d ksz guard t k r with
  | Ok (t', b) => WF 1 t' /\ (abs (root t'), b) = mm_delete_one (abs (root t)) k r
  | Err e => e = PageOverflow
  end.
Proof. exact delete_specific_refines_wf1. Qed.
Print Assumptions C17_delete_specific_refines.

(** ** all operation sequences *)
Theorem C17_step_refines : forall (d : nat) (ksz : key -> Z) (guard : bool), 4 <= d ->
  forall (t : tree) (o : op), WF 1 t ->
  match step d ksz guard t o with
  | Ok (t', a) => WF 1 t' /\ (abs (root t'), a) = mm_step (abs (root t)) o
  | Err e => e = PageOverflow
  end.
Proof. exact step_refines_wf1. Qed.
Print Assumptions C17_step_refines.

Theorem C17_run_refines : forall (d : nat) (ksz : key -> Z) (guard : bool), 4 <= d ->
  forall (ops : list op) (t : tree), WF 1 t ->
  refines (run d ksz guard t ops) (mm_run (abs (root t)) ops).
Proof. exact run_refines_wf1. Qed.
Print Assumptions C17_run_refines.

Theorem C17_run_state_refines : forall (d : nat) (ksz : key -> Z) (guard : bool), 4 <= d ->
  forall (ops : list op) (t : tree), WF 1 t ->
  match run_state d ksz guard t ops with
  | Ok t' => WF 1 t' /\ abs (root t') = mm_run_state (abs (root t)) ops
  | Err e => e = PageOverflow
  end.
Proof. exact run_state_refines_wf1. Qed.
Print Assumptions C17_run_state_refines.

Theorem C17_run_from_empty : forall (d : nat) (ksz : key -> Z) (guard : bool), 4 <= d ->
  forall ops : list op, refines (run d ksz guard (mkTree (Leaf []) 1) ops) (mm_run [] ops).
Proof. exact run_from_empty. Qed.
Print Assumptions C17_run_from_empty.

(** ** bulk_load *)
(** the loader with the repaired separator (minimum key of the child), any input size *)
Theorem C17_bulk_load_fixed_spec : forall (d : nat) (ksz : key -> Z) (es : list (key * rowid)),
  StronglySorted Z.le (map fst es) ->
  match bulk_load_fixed d ksz es with
  | Ok t => WF 0 t /\ abs (root t) = mm_of_list es
  | Err e => e = PageOverflow
  end.
Proof. exact bulk_load_fixed_spec. Qed.
Print Assumptions C17_bulk_load_fixed_spec.

(** the loader as written, under the side condition that exposes the defect: one internal level *)
Theorem C17_bulk_load_spec : forall (d : nat) (ksz : key -> Z) (es : list (key * rowid)),
  StronglySorted Z.le (map fst es) ->
  length (group es) <= leaf_capacity d * internal_capacity d ->
  match bulk_load d ksz es with
  | Ok t => WF 0 t /\ abs (root t) = mm_of_list es
  | Err e => e = PageOverflow
  end.
Proof. exact bulk_load_spec_small. Qed.
Print Assumptions C17_bulk_load_spec.

(** without the side condition: degree 5, thirty keys -- a key that is in the tree is not found *)
Theorem C17_bulk_load_spec_refuted :
  exists (es : list (key * rowid)) (t : tree) (k : key),
    StronglySorted Z.le (map fst es) /\ bulk_load 5 c17_ksz es = Ok t /\
    height t = 4 /\ mm_lookup (mm_of_list es) k = [k] /\ abs (root t) = mm_of_list es /\
    lookup t k = Ok [] /\ WFb 0 t = false.
Proof. exact bulk_load_refuted. Qed.
Print Assumptions C17_bulk_load_spec_refuted.

(** whatever the separators: a successful bulk_load stores exactly the loaded entries (the defect
    above is one of routing; an unbounded scan still returns everything) *)
Theorem C17_bulk_load_contents : forall (d : nat) (ksz : key -> Z) (es : list (key * rowid)) (t : tree),
  StronglySorted Z.le (map fst es) -> bulk_load d ksz es = Ok t -> abs (root t) = mm_of_list es.
Proof. exact bulk_load_abs. Qed.
Print Assumptions C17_bulk_load_contents.

(** bulk_load does not establish [WF 1], and delete needs it: a panic (index out of bounds) *)
Theorem C17_delete_after_bulk_load_refuted :
  exists (es : list (key * rowid)) (t : tree) (k : key),
    StronglySorted Z.le (map fst es) /\ bulk_load 5 c17_ksz es = Ok t /\
    WFb 0 t = true /\ WFb 1 t = false /\ delete 5 c17_ksz false t k = Err Panic.
Proof. exact bulk_load_delete_refuted. Qed.
Print Assumptions C17_delete_after_bulk_load_refuted.

(** ** the code with the two proposed repairs applied ([guard = true], repaired separator):
    single-child internal nodes are tolerated, so bulk-loaded trees are covered as well *)
Theorem C17_delete_refines_patched : forall (d : nat) (ksz : key -> Z), 4 <= d ->
  forall (t : tree) (k : key), WF 0 t ->
  match delete d ksz true t k with
  | Ok (t', b) => WF 0 t' /\ abs (root t') = mm_delete (abs (root t)) k /\ b = mm_mem (abs (root t)) k
  | Err e => e = PageOverflow
  end.
Proof. exact delete_refines_guarded. Qed.
Print Assumptions C17_delete_refines_patched.

Theorem C17_run_refines_patched : forall (d : nat) (ksz : key -> Z), 4 <= d ->
  forall (ops : list op) (t : tree), WF 0 t ->
  refines (run d ksz true t ops) (mm_run (abs (root t)) ops).
Proof. exact run_refines_guarded. Qed.
Print Assumptions C17_run_refines_patched.

Theorem C17_bulk_load_then_run_patched : forall (d : nat) (ksz : key -> Z), 4 <= d ->
  forall (es : list (key * rowid)) (ops : list op), StronglySorted Z.le (map fst es) ->
  match bulk_load_fixed d ksz es with
  | Ok t => refines (run d ksz true t ops) (mm_run (mm_of_list es) ops)
  | Err e => e = PageOverflow
  end.
Proof. exact patched_bulk_then_run. Qed.
Print Assumptions C17_bulk_load_then_run_patched.

(** ** the executable well-formedness check used on the real page dumps is sound *)
Theorem C17_WFb_sound : forall (m : nat) (t : tree), WFb m t = true -> WF m t.
Proof. exact WFb_sound. Qed.
Print Assumptions C17_WFb_sound.

(** ** the specification is an ordered multimap *)
Theorem C17_spec_sorted_insert : forall (m : mm) (k : key) (r : rowid),
  sorted_mm m -> sorted_mm (mm_insert m k r).
Proof. exact sorted_mm_insert. Qed.
Print Assumptions C17_spec_sorted_insert.

Theorem C17_spec_sorted_delete : forall (m : mm) (k : key), sorted_mm m -> sorted_mm (mm_delete m k).
Proof. exact sorted_mm_delete. Qed.
Print Assumptions C17_spec_sorted_delete.

Theorem C17_spec_lookup_insert_same : forall (m : mm) (k : key) (r : rowid),
  sorted_mm m -> mm_lookup (mm_insert m k r) k = mm_lookup m k ++ [r].
Proof. exact mm_lookup_insert_same. Qed.
Print Assumptions C17_spec_lookup_insert_same.

Theorem C17_spec_lookup_insert_other : forall (m : mm) (k k' : key) (r : rowid),
  k <> k' -> mm_lookup (mm_insert m k r) k' = mm_lookup m k'.
Proof. exact mm_lookup_insert_other. Qed.
Print Assumptions C17_spec_lookup_insert_other.

Theorem C17_spec_lookup_delete_same : forall (m : mm) (k : key), mm_lookup (mm_delete m k) k = [].
Proof. exact mm_lookup_delete_same. Qed.
Print Assumptions C17_spec_lookup_delete_same.

Theorem C17_spec_lookup_delete_other : forall (m : mm) (k k' : key),
  k <> k' -> mm_lookup (mm_delete m k) k' = mm_lookup m k'.
Proof. exact mm_lookup_delete_other. Qed.
Print Assumptions C17_spec_lookup_delete_other.
