(** C27 — Wire-protocol message decoding is safe and respects framing.
    Model: Codec/Wire.v ([decode], [decode_startup], [read_cstring]; [oc] = build with overflow checks).
    Reference + classes: Codec/WireSpec.v.  Only pinned statements, each closed by [exact]. *)
From Coq Require Import ZArith List Bool.
From VibeSQL Require Import Generated.Consts Codec.Wire Codec.WireSpec Codec.WireBytes
  Codec.WireDecodeLaws Codec.WireStartupLaws Codec.WireFrontendLaws Codec.WireStreamLaws.
Import ListNotations.
Open Scope Z_scope.

(** ** 1. never panics — FALSE as stated; exact characterisation of the panics *)
Theorem C27_decode_no_panic_refuted : exists b, fst (decode true b) = Panic.
Proof. exact decode_no_panic_refuted_thm. Qed.
Print Assumptions C27_decode_no_panic_refuted.

Theorem C27_startup_no_panic_refuted : exists b, fst (decode_startup b) = Panic.
Proof. exact startup_no_panic_refuted_thm. Qed.
Print Assumptions C27_startup_no_panic_refuted.

(** [decode] panics iff overflow checks are on and the declared length is -1 *)
Theorem C27_decode_no_panic : forall oc b,
  fst (decode oc b) = Panic <-> (oc = true /\ k_len_minus1 b = true).
Proof. exact decode_panic_iff_thm. Qed.
Print Assumptions C27_decode_no_panic.

(** [decode_startup] panics iff the declared length is 0..7, not larger than the buffer, and fewer than
    8 bytes are buffered *)
Theorem C27_startup_no_panic : forall b, fst (decode_startup b) = Panic <-> ks_short_panic b = true.
Proof. exact decode_startup_panic_iff_thm. Qed.
Print Assumptions C27_startup_no_panic.

(** the loop bound of the model is never reached *)
Theorem C27_model_total : forall oc b, fst (decode oc b) <> Fuel /\ fst (decode_startup b) <> Fuel.
Proof. exact model_total_pin. Qed.
Print Assumptions C27_model_total.

(** ** 2. framing — FALSE as stated in both directions *)
Theorem C27_decode_framing_refuted_beyond :
  exists b m rest, decode true b = (Ok (Some m), rest) /\ 4 <= declared_len b
                   /\ blen b - blen rest > 1 + declared_len b.
Proof. exact decode_framing_refuted_over_thm. Qed.
Print Assumptions C27_decode_framing_refuted_beyond.

Theorem C27_decode_framing_refuted_short :
  exists b m rest, decode true b = (Ok (Some m), rest) /\ 4 <= declared_len b
                   /\ blen b - blen rest < 1 + declared_len b.
Proof. exact decode_framing_refuted_under_thm. Qed.
Print Assumptions C27_decode_framing_refuted_short.

Theorem C27_startup_framing_refuted :
  exists b m rest, decode_startup b = (Ok (Some m), rest) /\ blen b - blen rest > startup_declared_len b.
Proof. exact startup_framing_refuted_thm. Qed.
Print Assumptions C27_startup_framing_refuted.

(** what is always true: the buffer after a call is a suffix of the buffer before; need-more leaves it untouched *)
Theorem C27_decode_suffix : forall oc b r b',
  (decode oc b = (r, b') -> exists pre, b = pre ++ b')
  /\ (decode_startup b = (r, b') -> exists pre, b = pre ++ b').
Proof. exact decode_suffix_pin. Qed.
Print Assumptions C27_decode_suffix.

Theorem C27_need_more_untouched : forall oc b b',
  (decode oc b = (Ok None, b') -> b' = b) /\ (decode_startup b = (Ok None, b') -> b' = b).
Proof. exact need_more_untouched_pin. Qed.
Print Assumptions C27_need_more_untouched.

(** outside the known classes a returned message consumed exactly the declared frame *)
Theorem C27_decode_framing : forall oc b m rest,
  known_decode b = false -> decode oc b = (Ok (Some m), rest) ->
  exists frame, b = frame ++ rest /\ blen frame = 1 + declared_len b /\ 4 <= declared_len b.
Proof. exact decode_framing_thm. Qed.
Print Assumptions C27_decode_framing.

(** ** 3. progress — FALSE as stated *)
Theorem C27_decode_progress_refuted :
  exists b, fst (decode true b) = Ok None /\ 5 <= blen b /\ declared_len b < 4.
Proof. exact decode_progress_refuted_thm. Qed.
Print Assumptions C27_decode_progress_refuted.

Theorem C27_startup_progress_refuted :
  exists b, fst (decode_startup b) = Ok None /\ 4 <= blen b /\ startup_declared_len b < 8.
Proof. exact startup_progress_refuted_thm. Qed.
Print Assumptions C27_startup_progress_refuted.

(** the wait really is eternal: no bytes that arrive later end it (buffers stay below isize::MAX) *)
Theorem C27_negative_length_waits_for_ever : forall oc b ext,
  (k_neg_len b = true -> k_len_minus1 b = false -> blen (b ++ ext) < two63 ->
     decode oc (b ++ ext) = (Ok None, b ++ ext))
  /\ (ks_neg_len b = true -> blen (b ++ ext) < two63 -> decode_startup (b ++ ext) = (Ok None, b ++ ext)).
Proof. exact negative_length_waits_pin. Qed.
Print Assumptions C27_negative_length_waits_for_ever.

(** need-more only when bytes are really missing, unless the declared length is negative *)
Theorem C27_decode_progress : forall oc b,
  k_neg_len b = false -> fst (decode oc b) = Ok None -> blen b < 5 \/ blen b < 1 + declared_len b.
Proof. exact decode_progress_thm. Qed.
Print Assumptions C27_decode_progress.

(** a too-small declared length is an error, outside the known classes *)
Theorem C27_invalid_length_is_error : forall oc b,
  known_decode b = false -> 5 <= blen b -> declared_len b < 4 -> observe (decode oc b) = VErr.
Proof. exact decode_invalid_length_is_error_thm. Qed.
Print Assumptions C27_invalid_length_is_error.

(** ** 4. round trip — TRUE for every well-formed message, with any following bytes untouched *)
Theorem C27_decode_encode_frontend : forall oc m rest,
  wf_frontend m = true ->
  (is_startup_kind m = false -> decode oc (enc_frontend m ++ rest) = (Ok (Some m), rest))
  /\ (is_startup_kind m = true -> decode_startup (enc_frontend m ++ rest) = (Ok (Some m), rest)).
Proof. exact decode_encode_frontend_pin. Qed.
Print Assumptions C27_decode_encode_frontend.

(** ** 5. refinement: outside the known classes the decoders ARE the framing-respecting reference;
    inside them (overflow-checking build) they are not — the classes are exact *)
Theorem C27_decode_refines_spec : forall oc b,
  known_decode b = false -> agrees (observe (decode oc b)) b (spec_decode b).
Proof. exact decode_refines_spec_thm. Qed.
Print Assumptions C27_decode_refines_spec.

Theorem C27_startup_refines_spec : forall b,
  known_startup b = false -> agrees (observe (decode_startup b)) b (spec_decode_startup b).
Proof. exact startup_refines_spec_thm. Qed.
Print Assumptions C27_startup_refines_spec.

Theorem C27_known_classes_exact : forall b, blen b < two63 ->
  (known_decode b = true -> ~ agrees (observe (decode true b)) b (spec_decode b))
  /\ (known_startup b = true -> ~ agrees (observe (decode_startup b)) b (spec_decode_startup b)).
Proof. exact known_classes_exact_pin. Qed.
Print Assumptions C27_known_classes_exact.

(** the reference satisfies the property: framing, progress, stability under later bytes, round trip *)
Theorem C27_spec_framing : forall b m rest,
  spec_decode b = OMsg m rest ->
  exists frame, b = frame ++ rest /\ blen frame = 1 + declared_len b /\ 4 <= declared_len b.
Proof. exact spec_decode_framing_thm. Qed.
Print Assumptions C27_spec_framing.

Theorem C27_spec_progress : forall b,
  spec_decode b = ONeedMore <-> (blen b < 5 \/ (4 <= declared_len b /\ blen b < 1 + declared_len b)).
Proof. exact spec_decode_progress_thm. Qed.
Print Assumptions C27_spec_progress.

Theorem C27_spec_stable : forall b ext,
  match spec_decode b with
  | OMsg m rest => spec_decode (b ++ ext) = OMsg m (rest ++ ext)
  | OError => spec_decode (b ++ ext) = OError
  | ONeedMore => True
  end.
Proof. exact spec_decode_stable_thm. Qed.
Print Assumptions C27_spec_stable.

Theorem C27_spec_roundtrip : forall m rest,
  wf_frontend m = true -> is_startup_kind m = false -> spec_decode (enc_frontend m ++ rest) = OMsg m rest.
Proof. exact spec_decode_encode_thm. Qed.
Print Assumptions C27_spec_roundtrip.

Theorem C27_spec_startup_framing : forall b m rest,
  spec_decode_startup b = OMsg m rest ->
  exists frame, b = frame ++ rest /\ blen frame = startup_declared_len b /\ 8 <= startup_declared_len b.
Proof. exact spec_startup_framing_thm. Qed.
Print Assumptions C27_spec_startup_framing.

Theorem C27_spec_startup_progress : forall b,
  spec_decode_startup b = ONeedMore <->
  (blen b < 4 \/ (8 <= startup_declared_len b /\ blen b < startup_declared_len b)).
Proof. exact spec_startup_progress_thm. Qed.
Print Assumptions C27_spec_startup_progress.

Theorem C27_spec_startup_roundtrip : forall m rest,
  wf_frontend m = true -> is_startup_kind m = true -> spec_decode_startup (enc_frontend m ++ rest) = OMsg m rest.
Proof. exact spec_startup_roundtrip_thm. Qed.
Print Assumptions C27_spec_startup_roundtrip.

(** ** 6. segmentation: the answer of the real decoder depends on how the bytes were cut — FALSE in
    general, TRUE for streams of well-formed frames under every chunking *)
Theorem C27_chunking_refuted :
  exists b ext, observe (decode true b) = VErr /\ is_vmsg (observe (decode true (b ++ ext))) = true
                /\ blen b = 1 + declared_len b.
Proof. exact decode_chunking_refuted_thm. Qed.
Print Assumptions C27_chunking_refuted.

Theorem C27_decode_stable : forall oc b ext,
  known_decode b = false -> known_decode (b ++ ext) = false ->
  match observe (decode oc b) with
  | VMsg m rest => observe (decode oc (b ++ ext)) = VMsg m (rest ++ ext)
  | VErr => observe (decode oc (b ++ ext)) = VErr
  | _ => True
  end.
Proof. exact decode_stable_thm. Qed.
Print Assumptions C27_decode_stable.

Theorem C27_stream_any_chunking : forall oc ms chunks,
  Forall (fun m => wf_frontend m = true /\ is_startup_kind m = false) ms ->
  concat chunks = flat_map enc_frontend ms ->
  feed oc [] chunks = (ms, SNeed []).
Proof. exact feed_frames_thm. Qed.
Print Assumptions C27_stream_any_chunking.
