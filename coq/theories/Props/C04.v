(** C04 — Results do not depend on the parallelism configuration.
    The parallel operators are modelled over an ARBITRARY chunking of their input (the chunk
    boundaries are what the rayon schedule, the thread count and the thresholds decide); the theorems
    say that for every chunking the result is the sequential result.  Only pinned statements, each
    closed by [exact]. *)
From Coq Require Import List ZArith Bool Permutation Sorted.
From VibeSQL Require Import Sem.Syntax Sem.Rel Sem.OrderLaws Mech.Join Mech.Accumulator Mech.Parallel Mech.ParallelLaws.
Import ListNotations.
Open Scope Z_scope.

Theorem C04_par_filter : forall (A : Type) (p : A -> bool) (chunks : list (list A)),
  par_filter p chunks = filter p (concat chunks).
Proof. exact @par_filter_eq. Qed.
Print Assumptions C04_par_filter.

Theorem C04_par_map : forall (A B : Type) (f : A -> B) (chunks : list (list A)),
  par_map f chunks = map f (concat chunks).
Proof. exact @par_map_eq. Qed.
Print Assumptions C04_par_map.

Theorem C04_par_filter_map : forall (A B : Type) (f : A -> option B) (chunks : list (list A)),
  par_filter_map f chunks = flat_map (fun x => match f x with Some y => [y] | None => [] end) (concat chunks).
Proof. exact @par_filter_map_eq. Qed.
Print Assumptions C04_par_filter_map.

Theorem C04_chunking_irrelevant : forall (A : Type) (p : A -> bool) (c1 c2 : list (list A)),
  concat c1 = concat c2 -> par_filter p c1 = par_filter p c2.
Proof. exact @par_filter_chunking_irrelevant. Qed.
Print Assumptions C04_chunking_irrelevant.

(** parallel sort: for every chunking, a sorted permutation of the input (the multiset, and the
    sequence wherever the ORDER BY keys determine it) *)
Theorem C04_par_sort : forall (le : row -> row -> bool),
  (forall a b, le a b = true \/ le b a = true) ->
  forall chunks : list (list row),
  Sorted (fun u v => le u v = true) (par_sort le chunks) /\ Permutation (concat chunks) (par_sort le chunks).
Proof. exact par_sort_sorted_perm. Qed.
Print Assumptions C04_par_sort.

Theorem C04_par_sort_same_keys : forall (ks : list (nat * bool)) (chunks : list (list row)),
  map (keyvec ks) (par_sort (row_le ks) chunks) = map (keyvec ks) (sort_rows (row_le ks) (concat chunks)).
Proof. exact par_sort_same_keys. Qed.
Print Assumptions C04_par_sort_same_keys.

(** partitioned hash-table build: every probe sees the bucket of the sequential build, in order *)
Theorem C04_par_hash_build : forall (kr : row -> value) (k : value) (chunks : list (list row)),
  is_null k = false -> par_ht_lookup kr k chunks = ht_lookup k (ht_build kr (concat chunks)).
Proof. exact par_ht_lookup_eq. Qed.
Print Assumptions C04_par_hash_build.

(** partial aggregation *)
Theorem C04_par_count : forall chunks : list (list value),
  par_acc FCount chunks = Some (fold_left acc_step (concat chunks) (acc_new FCount false)).
Proof. exact par_count_eq. Qed.
Print Assumptions C04_par_count.

Theorem C04_par_sum : forall chunks : list (list value), all_ints (concat chunks) = true ->
  par_acc FSum chunks = Some (fold_left acc_step (concat chunks) (acc_new FSum false)).
Proof. exact par_sum_eq. Qed.
Print Assumptions C04_par_sum.

Theorem C04_par_avg : forall chunks : list (list value), all_ints (concat chunks) = true ->
  par_acc FAvg chunks = Some (fold_left acc_step (concat chunks) (acc_new FAvg false)).
Proof. exact par_avg_eq. Qed.
Print Assumptions C04_par_avg.
