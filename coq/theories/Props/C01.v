(** C01 — SELECT results agree with reference SQL semantics on the common subset.
    The reference semantics is [Sem.Eval.run_query]; agreement of the executor with it is decided by
    the correspondence run (every generated (database, query) is evaluated by both).  The theorems
    pinned here are the laws that make that comparison well defined: bag semantics of the set
    operations, DISTINCT, ORDER BY as a sorted permutation with NULLs last, LIMIT/OFFSET as a slice.
    Only pinned statements, each closed by [exact]. *)
From Coq Require Import List ZArith Bool Permutation Sorted.
From VibeSQL Require Import Sem.Syntax Sem.Rel Sem.Laws.
From VibeSQL Require Import Sem.Eval Sem.FuelLaws.
Import ListNotations.

Theorem C01_row_equality_is_identity : forall a b : row, row_eqb a b = true <-> a = b.
Proof. exact row_eqb_eq. Qed.
Print Assumptions C01_row_equality_is_identity.

Theorem C01_union_all_multiplicity : forall (r : row) (l1 l2 : list row),
  count_row r (apply_setop SUnion true l1 l2) = (count_row r l1 + count_row r l2)%nat.
Proof. exact union_all_count. Qed.
Print Assumptions C01_union_all_multiplicity.

Theorem C01_except_all_multiplicity : forall (r : row) (l1 l2 : list row),
  count_row r (apply_setop SExcept true l1 l2) = (count_row r l1 - count_row r l2)%nat.
Proof. exact except_all_count. Qed.
Print Assumptions C01_except_all_multiplicity.

Theorem C01_intersect_all_multiplicity : forall (r : row) (l1 l2 : list row),
  count_row r (apply_setop SIntersect true l1 l2) = Nat.min (count_row r l1) (count_row r l2).
Proof. exact intersect_all_count. Qed.
Print Assumptions C01_intersect_all_multiplicity.

Theorem C01_set_operations_without_all : forall (op : setop) (r : row) (l1 l2 : list row),
  count_row r (apply_setop op false l1 l2) =
  if match op with
     | SUnion => mem_row r l1 || mem_row r l2
     | SIntersect => mem_row r l1 && mem_row r l2
     | SExcept => mem_row r l1 && negb (mem_row r l2)
     end then 1%nat else 0%nat.
Proof. exact setop_distinct_count. Qed.
Print Assumptions C01_set_operations_without_all.

Theorem C01_distinct_once : forall l : list row,
  NoDup (distinct_rows l) /\ (forall r, In r (distinct_rows l) <-> In r l).
Proof. exact distinct_once. Qed.
Print Assumptions C01_distinct_once.

Theorem C01_order_by_sorted_permutation : forall (ks : list (nat * bool)) (l : list row),
  Sorted (fun a b => row_le ks a b = true) (sort_rows (row_le ks) l)
  /\ Permutation l (sort_rows (row_le ks) l).
Proof. exact order_by_sorted_perm. Qed.
Print Assumptions C01_order_by_sorted_permutation.

Theorem C01_null_keys_last : forall (desc : bool) (v : value),
  v <> VNull -> key_compare desc v VNull = Lt /\ key_compare desc VNull v = Gt.
Proof. exact null_keys_last. Qed.
Print Assumptions C01_null_keys_last.

Theorem C01_limit_offset_slice : forall (n m : nat) (l : list row),
  limit_offset (Some n) (Some m) l = firstn n (skipn m l).
Proof. exact limit_offset_slice. Qed.
Print Assumptions C01_limit_offset_slice.

(** the reference evaluator's answer does not depend on the fuel bound: an evaluation that finishes with
    anything but "out of fuel" (error 3) gives the same answer under every larger fuel *)
Theorem C01_eval_query_fuel_independent : forall (n k : nat) (d : db) (env : list row) (q : query) (r : res (list row)),
  eval_query n d env q = r -> r <> Err 3 -> eval_query (n + k) d env q = r.
Proof. exact eval_query_fuel_independent. Qed.
Print Assumptions C01_eval_query_fuel_independent.

Theorem C01_run_query_fuel_independent : forall (d : db) (q : query) (r : res (list row)) (k : nat),
  run_query d q = r -> r <> Err 3 -> eval_query (64 + k) d [] q = r.
Proof. exact run_query_is_fuel_independent. Qed.
Print Assumptions C01_run_query_fuel_independent.
