(** C02 — Query results do not depend on which secondary indexes exist.
    Mechanism theorems about the repaired index path (range candidates in index key order, then the
    WHERE re-check; index order claimed only under its guard).  Agreement of the executor with and
    without indexes is decided by the twin-database run.  Only pinned statements, closed by [exact]. *)
From Coq Require Import List ZArith Bool.
From VibeSQL Require Import Sem.Syntax Sem.Rel Mech.IndexOrder Mech.IndexOrderLaws Mech.IndexScan Mech.IndexScanLaws.
Import ListNotations.

Theorem C02_range_scan_complete : forall (col : nat) (op : binop) (lit : value) (x : row),
  cmp_true col op lit x = true ->
  in_range (fst (range_of op lit)) (snd (range_of op lit)) (nth col x VNull) = true.
Proof. exact range_scan_complete. Qed.
Print Assumptions C02_range_scan_complete.

Theorem C02_index_path_sound : forall (col : nat) (r : bound * bound) (where_ : row -> bool) (rows : list row),
  (forall x, where_ x = true -> in_range (fst r) (snd r) (nth col x VNull) = true) ->
  index_path col r where_ rows = filter where_ rows.
Proof. exact index_path_sound. Qed.
Print Assumptions C02_index_path_sound.

Theorem C02_index_path_eq_scan : forall (col : nat) (op : binop) (lit : value) (rest : row -> bool) (rows : list row),
  index_path col (range_of op lit) (fun x => cmp_true col op lit x && rest x) rows
  = filter (fun x => cmp_true col op lit x && rest x) rows.
Proof. exact index_path_eq_scan. Qed.
Print Assumptions C02_index_path_eq_scan.

(** the pre-repair path (no re-check) is refuted *)
Theorem C02_index_path_unchecked_refuted :
  exists col op lit rows,
    index_path_unchecked col (range_of op lit) rows <> filter (cmp_true col op lit) rows.
Proof. exact index_path_unchecked_refuted. Qed.
Print Assumptions C02_index_path_unchecked_refuted.

Theorem C02_index_order_agrees : forall (ks : list (nat * bool)) (l : list row),
  claim_sorted ks l = true ->
  sortedb (idx_le (map fst ks)) l = true ->
  sortedb (row_le ks) (index_order_output ks l) = true.
Proof. exact index_order_agrees. Qed.
Print Assumptions C02_index_order_agrees.
