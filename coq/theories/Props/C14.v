(** C14 — ROLLBACK TO SAVEPOINT restores the state at the savepoint, keeps that savepoint and destroys
    later ones; RELEASE changes no data.
    Only pinned statements, each closed by [exact] of a lemma proved in Store/SavepointLaws.v.

    The reference is the stack of deep copies [ghost] of Store/Savepoint.v: [grun db0 [] ops] runs the
    statements on the model and keeps, for every live savepoint, the copy [g_copy] of the tables taken
    when it was created and the flag [g_dirty] (some later statement changed rows without leaving an
    undoable trace in the change log: any UPDATE/DELETE that touches a row, an INSERT whose row the
    table normalises, a partially failed batch insert, a raw [record_change]).  [g_position n g] is the
    first (oldest) savepoint of name [n]: duplicate names follow the implementation's first-match
    rule.  [tabs_beq] = same tables and columns, rows equal as bags modulo [SqlValue]'s [==]. *)
From Coq Require Import List ZArith.
From VibeSQL Require Import Value.SqlValue Store.Txn Store.Savepoint Store.TxnLaws Store.SavepointLaws
  Store.SavepointFixed Store.SavepointFixedLaws.
Import ListNotations.
Open Scope Z_scope.

(** after ANY history from a committed state: ROLLBACK TO a savepoint whose copy is clean succeeds,
    every table equals (as a bag) the copy taken when the savepoint was created, the savepoint stack
    is cut right after that savepoint, which is still found under its name *)
Theorem C14_rollback_to_restores : forall (db0 : db) (ops : list op) (n : spname) (j : nat) (e : gsp),
  d_tx db0 = None ->
  let d := fst (grun db0 [] ops) in
  let g := snd (grun db0 [] ops) in
  g_position n g = Some j -> nth_error g j = Some e -> g_dirty e = false ->
  let res := step d (ORollbackTo n) in
  snd res = ROk 0 /\ tabs_beq (d_tabs (fst res)) (g_copy e) /\
  exists x x', d_tx d = Some x /\ d_tx (fst res) = Some x' /\
               x_sps x' = firstn (S j) (x_sps x) /\ sp_position n (x_sps x') = Some j.
Proof. exact rollback_to_restores_history. Qed.
Print Assumptions C14_rollback_to_restores.

(** the insert-only class, stated without the reference: SAVEPOINT s; INSERTs (SQL or storage API,
    single or batch) of rows the normaliser leaves alone; ROLLBACK TO s restores every table, in any
    state reachable by any history *)
Theorem C14_rollback_to_restores_insert_segment : forall (db0 : db) (pre : list op) (s : spname) (seg : list op),
  d_tx db0 = None ->
  let d := run db0 pre in
  (exists x, d_tx d = Some x /\ sp_position s (x_sps x) = None) ->
  Forall (fun o => clean_insert (d_tabs d) o = true) seg ->
  let res := step (run (fst (step d (OSavepoint s))) seg) (ORollbackTo s) in
  snd res = ROk 0 /\ tabs_beq (d_tabs (fst res)) (d_tabs d).
Proof. exact rollback_to_restores_insert_segment_history. Qed.
Print Assumptions C14_rollback_to_restores_insert_segment.

(** without the side condition the statement is false of the faithful model (each confirmed on the
    real code): UPDATE after the savepoint (KNOWN: rollback-to-after-update-or-delete) ... *)
Theorem C14_rollback_to_restores_refuted_update :
  exists (d : db) (s : spname) (seg : list op),
    d_tx d <> None /\ snd (after_segment d s seg) = ROk 0 /\
    differs (d_tabs d) (d_tabs (fst (after_segment d s seg))).
Proof. exact rollback_to_restores_refuted_update. Qed.
Print Assumptions C14_rollback_to_restores_refuted_update.

(** ... DELETE after the savepoint ... *)
Theorem C14_rollback_to_restores_refuted_delete :
  exists (d : db) (s : spname) (seg : list op),
    d_tx d <> None /\ snd (after_segment d s seg) = ROk 0 /\
    differs (d_tabs d) (d_tabs (fst (after_segment d s seg))).
Proof. exact rollback_to_restores_refuted_delete. Qed.
Print Assumptions C14_rollback_to_restores_refuted_delete.

(** ... an INSERT whose row the table normalises (KNOWN: undo-normalised-insert): ROLLBACK TO fails
    with RowNotFound and the row stays ... *)
Theorem C14_rollback_to_restores_refuted_normalised_insert :
  exists (d : db) (s : spname) (seg : list op),
    d_tx d <> None /\ snd (after_segment d s seg) = RErr /\
    differs (d_tabs d) (d_tabs (fst (after_segment d s seg))).
Proof. exact rollback_to_restores_refuted_normalised_insert. Qed.
Print Assumptions C14_rollback_to_restores_refuted_normalised_insert.

(** ... and an UPDATE recorded as [TransactionChange::Update {old_row, new_row}]: [undo_change]
    removes [old_row], which is not in the table (KNOWN: undo-change-update-removes-old-row) *)
Theorem C14_undo_change_update_refuted :
  exists (d : db) (s : spname) (seg : list op),
    d_tx d <> None /\ snd (after_segment d s seg) = RErr /\
    differs (d_tabs d) (d_tabs (fst (after_segment d s seg))).
Proof. exact undo_change_update_refuted. Qed.
Print Assumptions C14_undo_change_update_refuted.

(** [differs] really contradicts the conclusion of the positive theorems *)
Theorem C14_differs_not_beq : forall T T' : tables, differs T T' -> ~ tabs_beq T' T.
Proof. exact differs_not_beq. Qed.
Print Assumptions C14_differs_not_beq.

(** for EVERY history (clean or not): the stack effect of ROLLBACK TO -- unknown name: error and
    nothing changes; otherwise the first savepoint of that name is kept, later ones are destroyed, the
    change log is cut at its snapshot index -- and [Vec::drain(snapshot_index..)] cannot panic
    (the snapshot index never exceeds the log length) *)
Theorem C14_rollback_to_stack : forall (db0 : db) (ops : list op) (n : spname),
  d_tx db0 = None ->
  let d := fst (grun db0 [] ops) in
  forall x, d_tx d = Some x ->
  match sp_position n (x_sps x) with
  | None => step d (ORollbackTo n) = (d, RErr)
  | Some j =>
      exists x' idx, nth_error (x_sps x) j = Some (n, idx) /\ (idx <= length (x_log x))%nat /\
        d_tx (fst (step d (ORollbackTo n))) = Some x' /\
        x_sps x' = firstn (S j) (x_sps x) /\ x_log x' = firstn idx (x_log x) /\
        sp_position n (x_sps x') = Some j
  end.
Proof. exact rollback_to_stack_history. Qed.
Print Assumptions C14_rollback_to_stack.

(** RELEASE changes no data, in every state (so after every history) *)
Theorem C14_release_no_data_change : forall (d : db) (n : spname),
  let d' := fst (step d (ORelease n)) in
  d_tabs d' = d_tabs d /\ d_cat d' = d_cat d /\ d_uix d' = d_uix d.
Proof. exact release_no_data_change. Qed.
Print Assumptions C14_release_no_data_change.

(** ... and removes exactly the first savepoint of that name (error when there is none) *)
Theorem C14_release_stack : forall (d : db) (n : spname) (x : txn),
  d_tx d = Some x ->
  match sp_position n (x_sps x) with
  | None => step d (ORelease n) = (d, RErr)
  | Some j => snd (step d (ORelease n)) = ROk 0 /\
              exists x', d_tx (fst (step d (ORelease n))) = Some x' /\
                         x_sps x' = remove_nth j (x_sps x) /\ x_log x' = x_log x
  end.
Proof. exact release_stack. Qed.
Print Assumptions C14_release_stack.

(** SAVEPOINT changes no data and pushes (name, current log length) *)
Theorem C14_savepoint_pushes : forall (d : db) (n : spname) (x : txn),
  d_tx d = Some x ->
  let d' := fst (step d (OSavepoint n)) in
  d_tabs d' = d_tabs d /\
  exists x', d_tx d' = Some x' /\ x_sps x' = x_sps x ++ [(n, length (x_log x))] /\ x_log x' = x_log x.
Proof. exact savepoint_pushes. Qed.
Print Assumptions C14_savepoint_pushes.

(** About the REPAIRED model (Store/SavepointFixed.v = the faithful model with
    fixes/C14-record-update-delete-and-undo.patch applied: inserts record the stored row, UPDATE and
    DELETE record their changes, undo of an Update removes the new row, undone rows are put back
    without re-normalisation): for EVERY history in which no statement panics and [record_change] is
    not called by hand ([all_clean_f]), ROLLBACK TO any live savepoint succeeds and restores every
    table to the copy taken when it was created -- with no condition on the statements in between.
    This is the obligation the patch has to meet; it says nothing about the code as it is. *)
Theorem C14_repaired_rollback_to_restores : forall (db0 : db) (ops : list op) (n : spname) (j : nat) (e : gsp),
  d_tx db0 = None -> all_clean_f db0 ops ->
  let d := fst (grun_f db0 [] ops) in
  let g := snd (grun_f db0 [] ops) in
  g_position n g = Some j -> nth_error g j = Some e ->
  let res := step_f d (ORollbackTo n) in
  snd res = ROk 0 /\ tabs_beq (d_tabs (fst res)) (g_copy e) /\
  exists x x', d_tx d = Some x /\ d_tx (fst res) = Some x' /\
               x_sps x' = firstn (S j) (x_sps x) /\ sp_position n (x_sps x') = Some j.
Proof. exact rollback_to_restores_f_history. Qed.
Print Assumptions C14_repaired_rollback_to_restores.
