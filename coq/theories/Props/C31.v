(** C31 — CLI import/export transfers data faithfully and safely.
    Only pinned statements, each closed by [exact] of a lemma proved in Codec/Csv*Laws.v. *)
From Coq Require Import List ZArith.
From VibeSQL Require Import Codec.Csv Codec.CsvSpec Codec.CsvRfcLaws Codec.CsvCodeLaws Codec.CsvStmtLaws.
Import ListNotations.

(** the specification a repaired writer/reader pair has to meet: RFC 4180 round trip, all rows, all text *)
Theorem C31_rfc4180_roundtrip : forall rows : list (list str),
  Forall (fun r => r <> []) rows -> rfc_read (rfc_write rows) = Some rows.
Proof. exact rfc4180_roundtrip_thm. Qed.
Print Assumptions C31_rfc4180_roundtrip.

(** the writer of the proposed repair (fixes/C31-csv-rfc4180-reader.patch) is inverted by the same reader *)
Theorem C31_fixed_writer_roundtrip : forall rows : list (list str),
  Forall (fun r => r <> []) rows -> rfc_read (fixed_write rows) = Some rows.
Proof. exact fixed_writer_roundtrip_thm. Qed.
Print Assumptions C31_fixed_writer_roundtrip.

(** the code's writer + reader (export_csv, import_csv) round-trip under the side condition [csv_safe]
    (no comma, double quote, line feed; no white space at either end) on rectangular tables *)
Theorem C31_csv_roundtrip : forall (header : list str) (rows : list (list str)),
  header <> [] ->
  Forall (fun f => csv_safe f = true) header ->
  Forall (safe_row (length header)) rows ->
  csv_records (export_csv header rows) = Ok (header, rows).
Proof. exact csv_code_roundtrip_thm. Qed.
Print Assumptions C31_csv_roundtrip.

(** without the side condition the statement is false of the faithful model: comma, quote, line feed,
    surrounding blanks, trailing NBSP, CR LF *)
Theorem C31_csv_roundtrip_refuted :
  Forall (fun f : str => csv_records (export_csv [wit_header] [[f]]) <> Ok ([wit_header], [[f]])) wit_fields.
Proof. exact csv_roundtrip_refuted_thm. Qed.
Print Assumptions C31_csv_roundtrip_refuted.

(** the side condition is exact: on a one-cell table the pair preserves the cell iff it is [csv_safe] *)
Theorem C31_csv_cell_roundtrip_iff : forall h f : str,
  csv_safe h = true ->
  (csv_records (export_csv [h] [[f]]) = Ok ([h], [[f]]) <-> csv_safe f = true).
Proof. exact csv_cell_roundtrip_iff_thm. Qed.
Print Assumptions C31_csv_cell_roundtrip_iff.

(** quote doubling: a value wrapped by the importer scans back as one string literal holding the value *)
Theorem C31_quote_doubling : forall (v rest : str), not_sq_head rest ->
  scan_value (sql_quote v ++ rest) = Some (LStr v, rest).
Proof. exact quote_doubling_thm. Qed.
Print Assumptions C31_quote_doubling.

(** import_only_inserts, CSV, every file: each generated statement is INSERT INTO table (validated
    identifiers) VALUES (string literals) and the literals are the record's trimmed fields *)
Theorem C31_import_only_inserts_csv : forall (sch : list str) (file table : str) (stmts : list str),
  Forall (fun s => is_ident s = true) sch ->
  copy_import_csv (Some sch) file table = Ok stmts ->
  exists hdr rows,
    csv_records file = Ok (hdr, rows)
    /\ Forall (fun c => exists sc, In sc sch /\ eq_ignore_case sc c = true) (map trim hdr)
    /\ Forall2 (fun st row => scan_insert table st = Some (map trim hdr, map LStr row)) stmts rows.
Proof. exact import_only_inserts_csv_thm. Qed.
Print Assumptions C31_import_only_inserts_csv.

(** positive end-to-end statement for the code as written: a rectangular table of [csv_safe] cells under
    validated column names, written by export_csv and imported by handle_copy's CSV path, yields one
    INSERT per row whose literals are exactly the row's cells *)
Theorem C31_csv_export_import : forall (sch header : list str) (rows : list (list str)) (table : str),
  header <> [] ->
  Forall (fun f => csv_safe f = true) header ->
  Forall (safe_row (length header)) rows ->
  Forall (fun s => is_ident s = true) sch ->
  Forall (fun h => exists sc, In sc sch /\ eq_ignore_case sc h = true) header ->
  exists stmts,
    copy_import_csv (Some sch) (export_csv header rows) table = Ok stmts
    /\ Forall2 (fun st row => scan_insert table st = Some (header, map LStr row)) stmts rows.
Proof. exact csv_export_import_thm. Qed.
Print Assumptions C31_csv_export_import.

(** import_only_inserts, JSON: true when EVERY object's keys are validated (the repair) ... *)
Theorem C31_import_only_inserts_json_validated : forall (sch : list str) (objs : list jobj) (table : str)
    (stmts : list str),
  Forall (fun s => is_ident s = true) sch ->
  validate_all_objects sch objs = Ok tt ->
  import_json (Some objs) table = Ok stmts ->
  Forall2 (fun st o => scan_insert table st
                       = Some (map fst (to_map o), map (fun kv => code_lit (snd kv)) (to_map o))) stmts objs.
Proof. exact import_only_inserts_json_validated_thm. Qed.
Print Assumptions C31_import_only_inserts_json_validated.

(** ... the code as written validates the first object only, so it guarantees the first statement only ... *)
Theorem C31_import_only_inserts_json_first : forall (sch : list str) (o : jobj) (objs : list jobj)
    (table : str) (stmts : list str),
  Forall (fun s => is_ident s = true) sch ->
  copy_import_json (Some sch) (Some (o :: objs)) table = Ok stmts ->
  exists st rest, stmts = st :: rest /\
    scan_insert table st = Some (map fst (to_map o), map (fun kv => code_lit (snd kv)) (to_map o)).
Proof. exact import_only_inserts_json_first_thm. Qed.
Print Assumptions C31_import_only_inserts_json_first.

(** ... and the full statement is false: a key of a later object rewrites the statement *)
Theorem C31_import_only_inserts_json_refuted :
  Forall (fun s => is_ident s = true) inj_schema /\
  exists stmts st,
    copy_import_json (Some inj_schema) (Some inj_file) inj_table = Ok stmts
    /\ In st stmts /\ scan_insert inj_table st = None /\ st = inj_stmt.
Proof. exact import_only_inserts_json_refuted_thm. Qed.
Print Assumptions C31_import_only_inserts_json_refuted.

(** null_text_confusion: the JSON string "NULL" becomes SQL NULL (refuted), and exactly that *)
Theorem C31_null_text_confusion_refuted :
  exists v : jval, v <> JNull /\ json_lit v = LStr NULL_text /\ code_lit v = LNull
    /\ json_stmt [116] [([97], v)] = null_stmt.
Proof. exact null_text_confusion_refuted_thm. Qed.
Print Assumptions C31_null_text_confusion_refuted.

Theorem C31_json_value_faithful_iff : forall v : jval,
  code_lit v = json_lit v <-> (v = JNull \/ value_text v <> NULL_text).
Proof. exact json_value_faithful_iff_thm. Qed.
Print Assumptions C31_json_value_faithful_iff.

(** CSV import can never produce SQL NULL *)
Theorem C31_csv_import_never_null : forall (sch : list str) (file table : str) (stmts : list str),
  Forall (fun s => is_ident s = true) sch ->
  copy_import_csv (Some sch) file table = Ok stmts ->
  Forall (fun st => exists cols vals, scan_insert table st = Some (cols, vals) /\ ~ In LNull vals) stmts.
Proof. exact csv_import_never_null_thm. Qed.
Print Assumptions C31_csv_import_never_null.

(** the export direction: the file [\copy t TO f.csv] writes for a non-empty table is rejected by
    [\copy t FROM f.csv], whatever the data (placeholder header "Column") *)
Theorem C31_export_then_import_rejected : forall (sch : list str) (rows : list (list cell)) (r0 : list cell)
    (rest : list (list cell)) (table : str),
  rows = r0 :: rest -> r0 <> [] ->
  (forall c, In c sch -> eq_ignore_case c COLUMN_text = false) ->
  copy_import_csv (Some sch) (copy_export_csv rows) table = Err (ENoColumn COLUMN_text).
Proof. exact export_then_import_rejected_thm. Qed.
Print Assumptions C31_export_then_import_rejected.

(** the exported text of a text cell is never the cell's text (Debug formatting) *)
Theorem C31_fmt_cell_text_differs : forall s : str, fmt_cell (CText s) <> s.
Proof. exact fmt_cell_text_differs_thm. Qed.
Print Assumptions C31_fmt_cell_text_differs.

(** JSON export with the placeholder header keeps only the last column of every row *)
Theorem C31_export_json_keeps_last_column : forall (k : str) (row : list str) (x : str),
  row_object (repeat k (length (x :: row))) (x :: row) = [(k, last (x :: row) [])].
Proof. exact export_json_keeps_last_column_thm. Qed.
Print Assumptions C31_export_json_keeps_last_column.
