(** C23 — "The SQL parser is total".
    Only pinned statements, each closed by [exact] of a lemma proved in Lex/LexerLaws.v or
    Lex/ParseSkelLaws.v.

    Lexer: complete model, full-strength theorems (all Unicode tables, all inputs).
    Parser: only the recursion skeleton of SELECT/expression parsing is modelled
    ([_partial]: the statement-level grammar of the other ~8 kLoC is tied by the differential stream
    of the harness only).  On the skeleton the property is REFUTED: the native stack depth grows
    linearly with the input and nothing cuts it off ([C23_parser_stack_bounded_refuted]); the true
    statements are the linear two-sided bound and the bound for the repaired parser. *)
From Coq Require Import List ZArith Arith.
From VibeSQL Require Import Lex.Lexer Lex.LexerLaws Lex.ParseSkel Lex.ParseSkelLaws Lex.EndToEnd.
Import ListNotations.

(** *** Lexer *)

(** never a panic (slice out of range, [position - 1] underflow), never out of the fuel
    [length input + 1]: [tokenize] returns tokens or a LexerError *)
Theorem C23_lex_total : forall (uni_alnum : Z -> bool) (uni_upper : Z -> list Z) (cs : list Z),
  tokenize uni_alnum uni_upper cs <> Panic /\
  forall L, tokenize uni_alnum uni_upper cs <> Err EOutOfFuel L.
Proof. exact lex_total. Qed.
Print Assumptions C23_lex_total.

(** bounded time: loop iterations + next_token calls of a run, successful or failing *)
Theorem C23_lex_linear : forall (uni_alnum : Z -> bool) (uni_upper : Z -> list Z) (cs : list Z),
  (lex_ticks uni_alnum uni_upper cs <= 4 * length cs + 3)%nat.
Proof. exact lex_linear. Qed.
Print Assumptions C23_lex_linear.

(** at most one token per input character, then Eof *)
Theorem C23_lex_token_count : forall uni_alnum uni_upper (cs : list Z) ts,
  tokenize uni_alnum uni_upper cs = Ok ts ->
  exists mid, ts = mid ++ [TEof] /\ (length mid <= length cs)%nat.
Proof. exact lex_token_count. Qed.
Print Assumptions C23_lex_token_count.

(** token boundaries (reused by C19/C31): a single-quoted literal with doubled quotes is ONE String
    token carrying the unescaped text -- in any context ... *)
Theorem C23_next_token_string : forall uni_alnum uni_upper (input : list Z) (L : lexer) s post,
  rest input L = 39%Z :: double_quotes 39 s ++ 39%Z :: post -> hd_error post <> Some 39%Z ->
  exists t, next_token uni_alnum uni_upper input (length input) L =
            Ok (TString s, mkL (position L + length (double_quotes 39 s) + 2) t).
Proof. exact next_token_string. Qed.
Print Assumptions C23_next_token_string.

(** ... and as a whole input, for EVERY character list [s] *)
Theorem C23_lex_string_literal : forall uni_alnum uni_upper (s : list Z),
  tokenize uni_alnum uni_upper (39%Z :: double_quotes 39 s ++ [39%Z]) = Ok [TString s; TEof].
Proof. exact lex_string_literal. Qed.
Print Assumptions C23_lex_string_literal.

Theorem C23_lex_delimited : forall uni_alnum uni_upper (q : Z) (s : list Z),
  q = 34%Z \/ q = 96%Z -> s <> [] ->
  tokenize uni_alnum uni_upper (q :: double_quotes q s ++ [q]) = Ok [TDelim s; TEof].
Proof. exact lex_delimited. Qed.
Print Assumptions C23_lex_delimited.

(** truncated statements: a quote that is never closed is a LexerError, whatever follows *)
Theorem C23_lex_unterminated_string : forall uni_alnum uni_upper (s : list Z),
  ~ In 39%Z s -> exists L, tokenize uni_alnum uni_upper (39%Z :: s) = Err EUnterminatedString L.
Proof. exact lex_unterminated_string. Qed.
Print Assumptions C23_lex_unterminated_string.

(** *** Parser (recursion skeleton) *)

(** the skeleton interpreter itself always returns with its standard fuel *)
Theorem C23_skel_total : forall ts, skel_parse ts <> None.
Proof. exact skel_total. Qed.
Print Assumptions C23_skel_total.

(** THE PROPERTY IS FALSE of the faithful skeleton: for every candidate bound [B] on the number of
    simultaneously active parser frames there is an ACCEPTED token stream of length [<= 2*B+3]
    exceeding it: no constant stack suffices; the real parser aborts the process
    (known.d: nesting-depth-stack-overflow). *)
Theorem C23_parser_stack_bounded_refuted : forall B : nat,
  exists ts, (length ts <= 2 * B + 3)%nat /\ (B <= skel_depth ts)%nat.
Proof. exact depth_unbounded. Qed.
Print Assumptions C23_parser_stack_bounded_refuted.

(** the same refutation stated on the input TEXT (lexer model composed with the skeleton): a text of
    at most [2*d+9] characters that lexes without error, is an accepted statement, and needs at least
    [d] frames *)
Theorem C23_text_depth_unbounded_refuted : forall uni_alnum uni_upper (d : nat),
  exists cs ts, (length cs <= 2 * d + 9)%nat /\
                (tokenize uni_alnum uni_upper cs = Ok ts) /\
                (skel_accepts (map skel_of_token ts) = Some true) /\
                (d <= skel_depth (map skel_of_token ts))%nat.
Proof. exact text_depth_unbounded. Qed.
Print Assumptions C23_text_depth_unbounded_refuted.

(** the witnesses and their exact depths: [SELECT ((..(1)..))] and [SELECT - - .. - 1] *)
Theorem C23_depth_witnesses : forall k,
  skel_depth (paren_stmt k) = (10 * k + 14)%nat /\ skel_depth (minus_stmt k) = (k + 14)%nat /\
  skel_accepts (paren_stmt k) = Some true /\ skel_accepts (minus_stmt k) = Some true.
Proof. exact depth_witnesses. Qed.
Print Assumptions C23_depth_witnesses.

(** what IS true: the depth is at most linear in the number of tokens (every recursion cycle of the
    parser consumes a token) -- so parsing time/stack are bounded by the input length, not by a
    constant *)
Theorem C23_depth_linear_upper : forall ts, (skel_depth ts <= 13 * length ts + 3)%nat.
Proof. exact depth_linear_upper. Qed.
Print Assumptions C23_depth_linear_upper.

(** the true statement under the exact side condition: an input that the repaired parser with
    nesting limit [l] treats exactly like the current parser (= it is outside the known class
    "nesting deeper than l") needs at most [12*l+3] frames in the CURRENT parser *)
Theorem C23_depth_bounded_outside_known_class : forall l ts,
  skel_parse_lim (Some l) ts = skel_parse ts -> (skel_depth ts <= 12 * l + 3)%nat.
Proof. exact depth_bounded_outside_known_class. Qed.
Print Assumptions C23_depth_bounded_outside_known_class.

(** the repair is conservative: what the depth-limited parser accepts, the current parser accepts with
    the same remaining tokens and the same depth (the guard only turns results into ParseErrors) *)
Theorem C23_repair_conservative : forall l ts ts' m,
  skel_parse_lim (Some l) ts = Some (POk ts' m) -> skel_parse ts = Some (POk ts' m).
Proof. exact repair_conservative. Qed.
Print Assumptions C23_repair_conservative.

(** the repaired parser (fixes/C23-depth-limit.patch): total, and never deeper than [12*l+3] frames
    whatever the input.  [_partial]: this and everything above speaks about the recursion skeleton
    (SELECT list / FROM / WHERE and the whole expression grammar); the statement-level grammar of
    DDL/DML, set operations, window clauses, data types is not modelled by any theorem. *)
Theorem C23_parser_total_partial : forall l ts,
  skel_parse_lim (Some l) ts <> None /\ (skel_depth_lim l ts <= 12 * l + 3)%nat.
Proof. exact parser_total_repaired. Qed.
Print Assumptions C23_parser_total_partial.
