(** C22 — Temporal values round-trip through text and parsing is total.
    Only pinned statements, each closed by [exact] of a lemma proved in Value/TemporalLaws.v
    (model: Value/Temporal.v over the [&str] model Value/RStr.v and decimals Value/Dec.v).

    The model describes the code AFTER the C22 repairs (fix commits e051995f time.rs,
    947265c2 timestamp.rs, 98c849c2 date.rs, 21946acd interval.rs).  History: on the
    pre-repair code the first version of this file proved the totality theorems only under side
    conditions and carried machine-checked panicking witnesses —
      Time      "00:00:00.ééééé"                 ([&padded[..9]] cut a 2-byte character)
      Timestamp "2024-01-01 00:00:00+1é:2"       ([rest[..2]] after a character-index test)
      Interval  "1.aééééé SECOND"                ([..6] cut), "1 YEAR TO" ([parts[to_pos+1]]),
                "200000000 YEAR", "178956970-8 YEAR TO MONTH", "2562047789 HOUR",
                "9223372036854.775808 SECOND"    (i32 / i64 overflow)
      Date      year -1 prints "-001-01-01" which [from_str] rejected
    — all of which are now [Example]s of the repaired behaviour in TemporalLaws.v, and all of which
    the harness still generates on every run. *)
From Coq Require Import Strings.String.
From Coq Require Import List ZArith.
From VibeSQL Require Import Value.SqlValue Value.Dec Value.DecLaws Value.RStr Value.RStrLaws Value.Temporal Value.TemporalLaws.
Import ListNotations.
Open Scope Z_scope.

(** decimal library: the zero-padded print of [n] parses back to [n] in every integer type
    whose range contains it; negative numbers (sign-aware padding) in every signed type *)
Theorem C22_dec_roundtrip : forall (sg : bool) (lo hi : Z) (w : nat) (n : Z),
  0 <= n < 100000000000000000000 -> lo <= n <= hi -> parse_int sg lo hi (show_int_w w n) = Some n.
Proof. exact parse_show_int. Qed.
Print Assumptions C22_dec_roundtrip.

Theorem C22_dec_roundtrip_neg : forall (lo hi : Z) (w : nat) (n : Z),
  0 < n < 100000000000000000000 -> lo <= - n <= hi -> parse_int true lo hi (show_int_w w (- n)) = Some (- n).
Proof. exact parse_show_neg. Qed.
Print Assumptions C22_dec_roundtrip_neg.

(** ** Round trips — full strength *)

(** DATE: every value [Date::new] accepts: any i32 year (negative included), month 1..12, day 1..31 *)
Theorem C22_date_roundtrip : forall y m d : Z,
  valid_date y m d -> parse_date (show_date y m d) = ROk (VDate y m d).
Proof. exact date_roundtrip_thm. Qed.
Print Assumptions C22_date_roundtrip.

(** TIME: every valid value, all 10^9 nanosecond values (fraction printed with trailing zeros trimmed) *)
Theorem C22_time_roundtrip : forall h mi s ns : Z,
  valid_time h mi s ns -> parse_time (show_time h mi s ns) = ROk (VTime h mi s ns).
Proof. exact time_roundtrip_thm. Qed.
Print Assumptions C22_time_roundtrip.

(** TIMESTAMP: every valid date x valid time; covers [trim], [strip_timezone_suffix] (never strips
    anything from a printed value, also when the last '-' is beyond byte 10) and [split_whitespace] *)
Theorem C22_timestamp_roundtrip : forall y m d h mi s ns : Z,
  valid_date y m d -> valid_time h mi s ns ->
  parse_timestamp (show_timestamp y m d h mi s ns) = ROk (VTimestamp y m d h mi s ns).
Proof. exact timestamp_roundtrip_thm. Qed.
Print Assumptions C22_timestamp_roundtrip.

(** the same through [SqlValue]'s Display (display.rs), with "equal" in the sense of C21's [eqb] *)
Theorem C22_value_roundtrip : forall (v : sqlvalue) (t : str),
  valid_temporal v -> show_temporal v = Some t ->
  parse_as v t = ROk v /\ (forall w, parse_as v t = ROk w -> eqb v w = true).
Proof. exact value_roundtrip_thm. Qed.
Print Assumptions C22_value_roundtrip.

(** INTERVAL: Display prints the stored text, so parse-after-display is the identity on the text
    and yields an [eqb]-equal value; the parsed triple is a function of the text *)
Theorem C22_interval_roundtrip : forall (s : str) (i : interval),
  interval_new s = ROk i ->
  show_interval i = s
  /\ interval_new (show_interval i) = ROk i
  /\ (forall j, interval_new (show_interval i) = ROk j -> eqb (interval_value i) (interval_value j) = true).
Proof. exact interval_roundtrip_thm. Qed.
Print Assumptions C22_interval_roundtrip.

(** ** Totality — full strength: every string, no side condition *)

Theorem C22_parse_date_total : forall s : str, is_panic (parse_date s) = false.
Proof. exact parse_date_total_thm. Qed.
Print Assumptions C22_parse_date_total.

Theorem C22_parse_time_total : forall s : str, is_panic (parse_time s) = false.
Proof. exact parse_time_total_thm. Qed.
Print Assumptions C22_parse_time_total.

Theorem C22_parse_timestamp_total : forall s : str, is_panic (parse_timestamp s) = false.
Proof. exact parse_timestamp_total_thm. Qed.
Print Assumptions C22_parse_timestamp_total.

(** [Interval::parse_interval] returns a triple for every string, and the triple fits the field
    types (saturating i32 / i64 arithmetic) *)
Theorem C22_parse_interval_total : forall s : str,
  exists t, parse_interval s = ROk t /\ triple_in_range t.
Proof. exact parse_interval_ok_thm. Qed.
Print Assumptions C22_parse_interval_total.

(** [Interval::new] / [Interval::from_str]: always [Ok] with the text stored unchanged *)
Theorem C22_interval_new_total : forall s : str,
  exists i, interval_new s = ROk i /\ iv_text i = s
            /\ triple_in_range (iv_months i, iv_days i, iv_micros i).
Proof. exact interval_new_total_thm. Qed.
Print Assumptions C22_interval_new_total.

Theorem C22_interval_no_panic_no_err : forall s : str,
  is_panic (parse_interval s) = false /\ is_panic (interval_new s) = false /\ interval_new s <> RErr.
Proof. exact parse_interval_total_thm. Qed.
Print Assumptions C22_interval_no_panic_no_err.
