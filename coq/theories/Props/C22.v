(** C22 — Temporal values round-trip through text and parsing is total.
    Only pinned statements, each closed by [exact] of a lemma proved in Value/TemporalLaws.v
    (model: Value/Temporal.v over the [&str] model Value/RStr.v and decimals Value/Dec.v). *)
From Coq Require Import Strings.String.
From Coq Require Import List ZArith.
From VibeSQL Require Import Value.SqlValue Value.Dec Value.DecLaws Value.RStr Value.RStrLaws Value.Temporal Value.TemporalLaws.
Import ListNotations.
Open Scope Z_scope.

(** decimal library: the zero-padded print of [n] parses back to [n] in every integer type
    whose range contains it *)
Theorem C22_dec_roundtrip : forall (sg : bool) (lo hi : Z) (w : nat) (n : Z),
  0 <= n < 100000000000000000000 -> lo <= n <= hi -> parse_int sg lo hi (show_int_w w n) = Some n.
Proof. exact parse_show_int. Qed.
Print Assumptions C22_dec_roundtrip.

(** ** Round trips *)

(** DATE: every value [Date::new] accepts (any i32 year, month 1..12, day 1..31) outside the
    listed class [negative_year] (KNOWN_FINDINGS: C22 negative-year) *)
Theorem C22_date_roundtrip : forall y m d : Z,
  valid_date y m d -> negative_year (VDate y m d) = false ->
  parse_date (show_date y m d) = ROk (VDate y m d).
Proof. exact date_roundtrip_thm. Qed.
Print Assumptions C22_date_roundtrip.

(** the unconditional statement is false of the faithful model *)
Theorem C22_date_roundtrip_refuted :
  exists y m d : Z, valid_date y m d /\ date_new y m d = ROk (VDate y m d)
    /\ negative_year (VDate y m d) = true
    /\ show_date y m d = lit "-001-01-01"
    /\ parse_date (show_date y m d) = RErr.
Proof. exact date_roundtrip_refuted_thm. Qed.
Print Assumptions C22_date_roundtrip_refuted.

(** TIME: every valid value, all 10^9 nanosecond values (fraction printed with trailing zeros
    trimmed) — full strength, no side condition *)
Theorem C22_time_roundtrip : forall h mi s ns : Z,
  valid_time h mi s ns -> parse_time (show_time h mi s ns) = ROk (VTime h mi s ns).
Proof. exact time_roundtrip_thm. Qed.
Print Assumptions C22_time_roundtrip.

(** TIMESTAMP: every valid date x valid time outside [negative_year]; covers [trim],
    [strip_timezone_suffix] (never strips anything from a printed value, even for 8+ digit
    years where the last '-' is beyond byte 10) and [split_whitespace] *)
Theorem C22_timestamp_roundtrip : forall y m d h mi s ns : Z,
  valid_date y m d -> valid_time h mi s ns -> negative_year (VTimestamp y m d h mi s ns) = false ->
  parse_timestamp (show_timestamp y m d h mi s ns) = ROk (VTimestamp y m d h mi s ns).
Proof. exact timestamp_roundtrip_thm. Qed.
Print Assumptions C22_timestamp_roundtrip.

Theorem C22_timestamp_roundtrip_refuted :
  exists y m d h mi s ns : Z, valid_date y m d /\ valid_time h mi s ns
    /\ negative_year (VTimestamp y m d h mi s ns) = true
    /\ parse_timestamp (show_timestamp y m d h mi s ns) = RErr.
Proof. exact timestamp_roundtrip_refuted_thm. Qed.
Print Assumptions C22_timestamp_roundtrip_refuted.

(** the same through [SqlValue]'s Display (display.rs), with "equal" in the sense of C21's [eqb] *)
Theorem C22_value_roundtrip : forall (v : sqlvalue) (t : str),
  valid_temporal v -> negative_year v = false -> show_temporal v = Some t ->
  parse_as v t = ROk v /\ (forall w, parse_as v t = ROk w -> eqb v w = true).
Proof. exact value_roundtrip_thm. Qed.
Print Assumptions C22_value_roundtrip.

(** INTERVAL: Display prints the stored text, so parse-after-display is the identity on the text
    and yields an [eqb]-equal value; the parsed triple is a function of the text *)
Theorem C22_interval_roundtrip : forall (s : str) (i : interval),
  interval_new s = ROk i ->
  show_interval i = s
  /\ interval_new (show_interval i) = ROk i
  /\ (forall j, interval_new (show_interval i) = ROk j -> eqb (interval_value i) (interval_value j) = true).
Proof. exact interval_roundtrip_thm. Qed.
Print Assumptions C22_interval_roundtrip.

Theorem C22_interval_never_err : forall s : str, interval_new s <> RErr.
Proof. exact interval_new_never_err_thm. Qed.
Print Assumptions C22_interval_never_err.

(** ** Totality (parsing any string yields a value or an error, never a panic) *)

(** DATE: full strength, every string *)
Theorem C22_parse_date_total : forall s : str, is_panic (parse_date s) = false.
Proof. exact parse_date_total_thm. Qed.
Print Assumptions C22_parse_date_total.

(** TIME: outside the listed class [frac_nonascii] (KNOWN_FINDINGS: C22 non-ascii-in-fraction) *)
Theorem C22_parse_time_total : forall s : str,
  frac_nonascii s = false -> is_panic (parse_time s) = false.
Proof. exact parse_time_total_thm. Qed.
Print Assumptions C22_parse_time_total.

(** the only panic of [Time::from_str] is the [&padded[..9]] slice, exactly when byte 9 of the
    padded fraction is inside a character *)
Theorem C22_parse_time_panic_exact : forall (s : str) (k : panic_kind),
  parse_time s = RPanic k ->
  k = PSlice /\ exists f, after_first (Z.eqb 46) s = Some f /\ frac_cut f = true.
Proof. exact parse_time_panic_inv. Qed.
Print Assumptions C22_parse_time_panic_exact.

Theorem C22_parse_time_total_refuted :
  exists s : str, frac_nonascii s = true /\ parse_time s = RPanic PSlice.
Proof. exact parse_time_total_refuted_thm. Qed.
Print Assumptions C22_parse_time_total_refuted.

(** TIMESTAMP: outside [frac_nonascii] and [tz_nonascii]
    (KNOWN_FINDINGS: C22 non-ascii-in-fraction, non-ascii-in-tz-offset) *)
Theorem C22_parse_timestamp_total : forall s : str,
  frac_nonascii s = false -> tz_nonascii s = false -> is_panic (parse_timestamp s) = false.
Proof. exact parse_timestamp_total_thm. Qed.
Print Assumptions C22_parse_timestamp_total.

Theorem C22_parse_timestamp_total_refuted_frac :
  exists s : str, frac_nonascii s = true /\ tz_nonascii s = false /\ parse_timestamp s = RPanic PSlice.
Proof. exact parse_timestamp_total_refuted_frac_thm. Qed.
Print Assumptions C22_parse_timestamp_total_refuted_frac.

Theorem C22_parse_timestamp_total_refuted_tz :
  exists s : str, frac_nonascii s = false /\ tz_nonascii s = true /\ parse_timestamp s = RPanic PSlice.
Proof. exact parse_timestamp_total_refuted_tz_thm. Qed.
Print Assumptions C22_parse_timestamp_total_refuted_tz.

(** INTERVAL: outside [frac_nonascii], [long_number] and [to_is_last]
    (KNOWN_FINDINGS: C22 non-ascii-in-fraction, interval-arith-overflow, interval-to-last-word) *)
Theorem C22_parse_interval_total : forall s : str,
  frac_nonascii s = false -> long_number s = false -> to_is_last s = false ->
  is_panic (parse_interval s) = false /\ is_panic (interval_new s) = false.
Proof. exact parse_interval_total_thm. Qed.
Print Assumptions C22_parse_interval_total.

Theorem C22_parse_interval_total_refuted_frac :
  exists s : str, frac_nonascii s = true /\ long_number s = false /\ to_is_last s = false
    /\ parse_interval s = RPanic PSlice.
Proof. exact parse_interval_total_refuted_frac_thm. Qed.
Print Assumptions C22_parse_interval_total_refuted_frac.

(** four distinct overflow sites: [years * 12], [years * 12 + months], [hours * 3600 * 1_000_000],
    [whole * 1_000_000 + frac] *)
Theorem C22_parse_interval_total_refuted_overflow :
  exists s1 s2 s3 s4 : str,
    (frac_nonascii s1 = false /\ long_number s1 = true /\ to_is_last s1 = false /\ parse_interval s1 = RPanic POverflow)
    /\ (long_number s2 = true /\ parse_interval s2 = RPanic POverflow)
    /\ (long_number s3 = true /\ parse_interval s3 = RPanic POverflow)
    /\ (long_number s4 = true /\ parse_interval s4 = RPanic POverflow).
Proof. exact parse_interval_total_refuted_overflow_thm. Qed.
Print Assumptions C22_parse_interval_total_refuted_overflow.

Theorem C22_parse_interval_total_refuted_to :
  exists s : str, frac_nonascii s = false /\ long_number s = false /\ to_is_last s = true
    /\ parse_interval s = RPanic PIndex.
Proof. exact parse_interval_total_refuted_to_thm. Qed.
Print Assumptions C22_parse_interval_total_refuted_to.
